"""C08 - no network input can crash or hang a listener or a client.

spec/Robust.tla   the receive pipelines (IP NTP/NTS listener, IP client incl. NTS-KE fetch and NTS
                  responses, NTS-KE server connection, CSPTP listener and client, SCION listener incl. SCMP
                  responder and end-host forwarder, SCION client) as state machines
                  over ABSTRACT inputs (one small enumeration per parsing decision of the code, revealed
                  lazily by the stage that takes the decision); the code's panic sites and its
                  non-advancing extension-field loop are explicit transitions behind named switches.

1. TLC decides the property section (NeverDead, Progress, SentinelServed) on the REPAIRED pipeline
   (all switches FALSE; invariants exhaustively, the two leads-to properties under weak fairness) and
   shows the counterexamples of the pipeline AS WRITTEN (all switches TRUE) - information, never a verdict.
2. TLC enumerates every finished input of the as-written pipeline (a complete abstract input with the
   predicted outcome and site); harness/c08 concretises each into bytes, sends it to the REAL receive
   loops running in child processes, followed by a well-formed sentinel on the same socket.
3. RobustTrace.tla validates what the real code did: monitor = property section on the recorded
   behaviour (child_died / hang / sentinel unanswered -> VIOLATION); strict = the observed outcome is
   one the transition function allows for that input, as written or repaired (else DRIFT).

Self-test knob: VERIF_C08_CORRUPT=outcome|sentinel corrupts one recorded field of one healthy record
before validation (negative control of the monitor; expect exit 1).
"""
import collections, json, os, random, re, threading
from concurrent.futures import ThreadPoolExecutor

import vlib

MON = ["RWellFormed", "RNeverDead", "RProgress", "RSentinelServed"]


def _cases(ctx, out):
    return ctx.emitted(out)


def _violations(out):
    """-> list of (invariant, l) for every violation TLC reported with -continue."""
    res = []
    for blk in out.split("Error: Invariant ")[1:]:
        inv = blk.split(" ", 1)[0]
        m = re.findall(r"\bl = (\d+)", blk)
        if m:
            res.append((inv, int(m[-1])))
    return res


def _validate(ctx, cfg, timeout):
    r = ctx.tlc("RobustTrace", cfg, workers=5, timeout=timeout, allow_violation=True, tag="trace:" + cfg,
                extra=("-continue",))
    return _violations(r["out"]), r


def _clean(sig):
    return re.sub(r"\s+", " ", re.sub(r"[()*\[\]]", "", sig)).strip()


def _signature(r, inv):
    c = r["c"]
    cls = c["site"] if r["cls"] == "abstract" else "mutant of " + c["site"]
    if inv == "RNeverDead":
        return "C08 NeverDead %s %s" % (r["kind"], _clean(r["sig"] or "?"))
    if inv == "RProgress":
        return "C08 Progress %s spin @ %s" % (r["kind"], _clean(r["sig"] or "?"))
    if inv == "RSentinelServed":
        return "C08 SentinelServed %s after %s" % (r["kind"], cls)
    return "C08 %s %s" % (inv, r["kind"])


_CANON = dict(cp="srv", dp="ntp", da="t0l4", sa="t0l4", pt="empty", ext="none", l4="udp", ul="ok", sz="s48",
              b0="v4c", ia="ok", org="match", meta="ok", ts="ok", sc="ok", pl="ok", tr="ok")


def _scdims(c):
    """The dimensions in which the SCION datagrams of a case deviate from the canonical datagrams, with the
    values of the length dimensions (python only sorts cases into classes for sampling)."""
    res = []
    for g in c["rs"]:
        authok = g.get("ext") == "e2e" and g.get("eo") in ("auth28cok", "auth28sok")
        d = tuple(sorted(k for k, v in _CANON.items() if g.get(k, "na") not in ("na", v) and not (k == "ext" and authok)))
        lens = tuple("%s=%s" % (k, g[k]) for k in ("pl", "ul", "tr") if g.get(k, "na") not in ("na", "ok"))
        if lens:
            # the lengths matter where the payload is located through them (the authenticator's MAC)
            d += lens + (g.get("eo", "na"),)
        elif authok:
            d += ("auth",)
        res.append(d)
    return (c["auth"], tuple(res))


def _select(ctx, cases):
    """Inputs predicted to hang cost ~0.7 s each (confirmation + child restart), calls that run into
    their deadline cost the deadline: a seeded sample of at most `cap` per class of those is replayed."""
    rnd = random.Random(ctx.seed)
    cap = 10 if ctx.quick else 400
    keep, pool = [], collections.defaultdict(list)
    for c in cases:
        if c["kind"] in ("scsrv", "sccli"):
            # SCION datagrams: t-wise (ScDev = 2, around the plain and the authenticated canonical datagram)
            # enumeration; a seeded sample per (outcome, site, deviating dimensions, length values) class
            pool[(c["kind"], c["out"], c["site"], _scdims(c))].append(c)
        elif c["out"] in ("hang", "hangoom"):
            # class = pipeline, site, type of the non-advancing field, number of fields before it
            g = c["rs"][-1]
            f = g["fs"][-1]["t"] if g["fs"] and g["inner"] == "na" else "inner"
            pool[(c["kind"], c["out"], c["site"], f, min(len(g["fs"]), 2))].append(c)
        elif c["kind"] == "csptpcli" and c["site"] == "read:deadline" and ctx.quick:
            # calls that end at their deadline cost the deadline; classes differ in where the silence starts
            pool[("csptpcli", "deadline", len(c["rs"]), c["rs"][0]["mt"])].append(c)
        else:
            keep.append(c)
    dropped = 0
    for k in sorted(pool, key=str):
        xs = pool[k]
        rnd.shuffle(xs)
        n = cap
        if k[0] in ("scsrv", "sccli"):
            n = 1 if ctx.quick else 12
        keep += xs[:n]
        dropped += max(0, len(xs) - n)
    return keep, dropped


def run(ctx):
    q = ctx.quick
    ctx.specdir()
    res = {}

    def tlc(key, cfg, **kw):
        res[key] = ctx.tlc("RobustMC", cfg, **kw)

    # 2 first: the generator run is what the replay needs; the deciding runs (1) go on in the
    # background while the real code is being driven
    tlc("gen", "Robust_gen.cfg" if q else "Robust_gendeep.cfg", workers=1, timeout=900, tag="gen")
    jobs = [
        ("exh", "Robust_exh.cfg" if q else "Robust_deep.cfg", dict(workers=3, timeout=900)),
        ("live", "Robust_live.cfg", dict(workers=2, timeout=600)),
        ("faithful", "Robust_faithful.cfg", dict(workers=1, timeout=600, allow_violation=True)),
        ("livefaithful", "Robust_livefaithful.cfg", dict(workers=1, timeout=600, allow_violation=True)),
        ("livefaithful2", "Robust_livefaithful2.cfg", dict(workers=1, timeout=600, allow_violation=True)),
    ]
    pool = ThreadPoolExecutor(max_workers=3)
    futs = [pool.submit(tlc, k, cfg, **kw) for k, cfg, kw in jobs]

    def decide():
        for f in futs:
            f.result()
        pool.shutdown()
        ctx.log("TLC repaired pipeline: %d distinct states (invariants), %d (liveness); as written: %s / %s / %s" % (
            res["exh"]["distinct"], res["live"]["distinct"], res["faithful"]["violated"],
            res["livefaithful"]["violated"], res["livefaithful2"]["violated"]))
        for k in ("faithful", "livefaithful", "livefaithful2"):
            if res[k]["violated"] is None:
                ctx.notes.append("the as-written pipeline (%s) no longer violates the property section in the "
                                 "specification: the faithful switches model nothing" % k)
            else:
                ctx.notes.append("specification level (information): with the switches as written, %s is violated (%s)"
                                 % (res[k]["violated"], jobs[[j[0] for j in jobs].index(k)][1]))

    cases = _cases(ctx, res["gen"]["out"])
    if len(cases) < 1000:
        raise vlib.Inconclusive("case generator produced only %d cases" % len(cases))
    sel, dropped = _select(ctx, cases)
    rnd = random.Random(ctx.seed + 17)
    tcs = []
    for i, c in enumerate(sel):
        mut = 0
        if not q and c["kind"] in ("ipsrv", "ipcli", "kesrv") and c["out"] in ("served", "dropped"):
            mut = 2 if c["kind"] == "ipsrv" else (1 if rnd.random() < 0.35 else 0)
        tcs.append(dict(id=i + 1, mut=mut, c=c))
    cp = ctx.path("cases.ndjson")
    vlib.write_ndjson(cp, tcs)
    ctx.log("generator: %d abstract inputs, %d replayed (%d hang-/deadline-class inputs beyond the per-class cap not replayed)"
            % (len(cases), len(sel), dropped))

    # 3: the real receive loops
    trace, out = ctx.godriver("c08", "TestC08", cases=cp, timeout=240 if q else 1500, extra=("-v",),
                              env={"C08_LANES": os.environ.get("C08_LANES", "10")})
    decide()
    recs = vlib.read_ndjson(trace)
    m = re.search(r"C08 cases=.*", out)
    ctx.log("driver: %s" % (m.group(0) if m else "%d records" % len(recs)))
    stalls = [r for r in recs if r["outcome"] == "stall"]
    recs = [r for r in recs if r["outcome"] != "stall"]
    if len(stalls) > max(3, len(recs) // 200):
        raise vlib.Inconclusive("the harness could not make %d observations (e.g. %s)" % (len(stalls), stalls[0]["detail"][:300]))
    if stalls:
        ctx.notes.append("%d inputs could not be observed (harness stall, not judged): %s" % (len(stalls), stalls[0]["detail"][:200]))
    cor = os.environ.get("VERIF_C08_CORRUPT")
    if cor:
        victim = next(r for r in recs if r["outcome"] in ("served", "dropped") and r["sentinel_answered"])
        if cor == "outcome":
            victim["outcome"] = "child_died"
            victim["sig"] = "selftest: corrupted outcome field"
        else:
            victim["sentinel_answered"] = False
        ctx.notes.append("self-test: field %s of record id=%s corrupted before validation" % (cor, victim["id"]))
    slim = [dict(kind=r["kind"], cls=r["cls"], c=r["c"], outcome=r["outcome"],
                 sentinel_answered=r["sentinel_answered"]) for r in recs]

    # 4: code -> spec (monitor and strict read the same file; run side by side)
    tp = ctx.path("c08trace.ndjson")
    vlib.write_ndjson(tp, slim)
    import shutil
    shutil.copy(tp, os.path.join(ctx.specdir(), "trace.ndjson"))
    with ThreadPoolExecutor(max_workers=2) as ex:
        fm = ex.submit(_validate, ctx, "RobustTrace_mon.cfg", 900)
        fs = ex.submit(_validate, ctx, "RobustTrace_strict.cfg", 1500)
        bad, _ = fm.result()
        sbad, _ = fs.result()
    # a hang whose dump did not show the spinning goroutine's stack (it ran on another thread than the one
    # that handled the signal) is filed under the stack seen for the same pipeline and input class
    common = collections.defaultdict(collections.Counter)
    for r in recs:
        if r["outcome"] == "hang" and r["sig"]:
            common[(r["kind"], r["c"]["site"])][r["sig"]] += 1
    for r in recs:
        if r["outcome"] == "hang" and not r["sig"] and common[(r["kind"], r["c"]["site"])]:
            r["sig"] = common[(r["kind"], r["c"]["site"])].most_common(1)[0][0]
    groups = collections.OrderedDict()
    seen = set()
    for inv, l in bad:
        if l in seen:
            continue
        seen.add(l)
        r = recs[l - 1]
        groups.setdefault(_signature(r, inv), []).append((inv, r))
    for sig, xs in groups.items():
        inv, r = xs[0]
        # prefer a directly realised abstract input as the example
        for i2, r2 in xs:
            if r2["cls"] == "abstract":
                inv, r = i2, r2
                break
        kinds = collections.Counter(x[1]["c"]["site"] for x in xs)
        what = ("%s fails on the real %s: outcome=%s sentinel_answered=%s for %d recorded inputs (input classes: %s); "
                "example input class %s, first bytes %s; %s" % (
                    inv[1:], r["kind"], r["outcome"], r["sentinel_answered"], len(xs),
                    ", ".join("%s x%d" % kv for kv in kinds.most_common(4)),
                    json.dumps(_brief(r["c"])), r.get("hex", "")[:120], (r.get("detail") or "")[:160]))
        ctx.violation(sig, what, dict(case=r["c"], cls=r["cls"], outcome=r["outcome"], sig=r["sig"],
                                      hex=r.get("hex", ""), detail=r.get("detail", "")))
    nviol = len(seen)
    dsum = collections.Counter()
    for inv, l in sbad:
        r = recs[l - 1]
        dsum[(r["kind"], r["c"]["out"], r["c"]["site"], r["outcome"])] += 1
    for (kind, pout, site, obs), n in dsum.most_common(12):
        ctx.drift.append("%d %s inputs of class %s: Robust.tla allows %s (as written or repaired), the real code: %s"
                         % (n, kind, site, pout, obs))

    # 5: evidence
    absr = [r for r in recs if r["cls"] == "abstract"]
    distinct = len({json.dumps(r["c"], sort_keys=True) for r in absr if _depth(r["c"]) >= 3})
    per = collections.Counter((r["kind"], r["outcome"]) for r in recs)
    sample = []
    for want in ("served", "dropped", "child_died", "hang"):
        for r in recs:
            if r["outcome"] == want:
                sample.append({k: r[k] for k in ("kind", "cls", "c", "outcome", "sentinel_answered", "sig")})
                break
    ctx.cov.update(
        evaluations=len(recs), distinct_nontrivial=distinct,
        rule="abstract inputs = every finished path of the as-written pipelines of Robust.tla (TLC-enumerated; "
             "one class per parsing decision, bounds MaxExt/MaxExtCli/MaxKe of the gen config), each concretised "
             "into bytes (don't-cares from the seed) and sent to the real receive loop in a child process, then a "
             "sentinel on the same socket; quick replays a seeded subset of the inputs predicted to hang; "
             "cls=sampling records are seeded byte-level mutants (bit flips, length-field edits, truncations, "
             "splices) of such inputs and are SAMPLING, not enumeration; distinct_nontrivial = distinct abstract "
             "inputs with at least 3 revealed decisions",
        traces_validated_against_impl=len(recs), exhaustive=(dropped == 0),
        cases_generated=len(cases), cases_replayed=len(sel), hang_class_inputs_not_replayed=dropped,
        sampling_records=len(recs) - len(absr), records_violating=nviol, records_unexplained_strict=len(sbad),
        outcomes={"%s/%s" % k: v for k, v in sorted(per.items())},
        violation_signatures=list(groups.keys()),
        samples=sample)
    ctx.assumptions += [
        "an abstract class is represented by one concrete input per replay (don't-care bytes from the seed); "
        "below the classes only byte-level sampling (thorough tier)",
        "hang = the same 4-tuple stays unanswered for 3 further sentinels while other 4-tuples are answered "
        "(or the call does not return 150 ms after its deadline) and the child burns CPU or stays silent for "
        "1.5 s more; memory exhaustion is observed as child death (1.5 GiB mapped / 768 MiB resident watchdog)",
        "children run the real Start*/Measure* functions on loopback addresses 127.8.x.y with software timestamps",
        "SCION pipelines: same-AS operation without a SCION daemon (daemonAddr \"\"), DRKeys mocked (USE_MOCK_KEYS=true); "
        "the abstract SCION datagram is enumerated t-wise (at most 2 dimensions deviate from the canonical datagram) and "
        "replayed as a seeded sample per (outcome, site, deviating dimensions) class: 1 per class (quick), 12 (thorough)",
        "not covered by this check: NTS-KE over QUIC/SCION (net/scion/quic.go, core/server/ntske_scion.go), NTS inside "
        "SCION datagrams (same decoder as the IP listener, which is covered), StartSCIONDispatcher as a separate process "
        "(its code path is the end-host-port listener of StartSCIONServer, which is covered); silent peers (a key-exchange "
        "server that never answers) belong to C16/C20",
    ]


def _depth(c):
    return (len(c["ke"]) + sum(1 + len(g["fs"]) + sum(1 for k, v in g.items() if k not in ("fs", "sz") and v != "na")
                                for g in c["rs"]) + (1 if c["auth"] != "na" else 0) + (1 if c["kt"] != "na" else 0))


def _brief(c):
    res = {"kind": c["kind"]}
    for k in ("auth", "pre", "kt"):
        if c[k] != "na":
            res[k] = c[k]
    if c["ke"]:
        res["ke"] = c["ke"]
    res["rs"] = [{k: (["%s/%s" % (f["t"], f["l"]) for f in v] if k == "fs" else v)
                  for k, v in g.items() if v != "na" and v != []} for g in c["rs"]]
    return res
