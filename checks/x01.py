"""X01 - CSPTP two-message exchange: offset from the four timestamps of one exchange, within half the
round-trip delay; the client accepts only matching responses of the queried server; the server answers
complete pairs only (extension of the specification's coverage; not one of the listed properties)."""
import os, re, threading
import vlib

MON = "CsptpExchangeTrace_mon.cfg"
STRICT = "CsptpExchangeTrace_strict.cfg"


def maximal(scheds):
    keep = []
    for i, s in enumerate(scheds):
        nxt = scheds[i + 1] if i + 1 < len(scheds) else None
        if nxt is not None and len(nxt) >= len(s) and nxt[:len(s)] == s:
            continue
        keep.append(s)
    return keep


def parallel_tlc(ctx, jobs):
    """jobs: list of (cfg, kwargs). Runs them concurrently (4 workers each); returns results by cfg."""
    res, errs = {}, []

    def one(cfg, kw):
        try:
            res[cfg] = ctx.tlc("CsptpExchangeMC", cfg, **kw)
        except Exception as e:  # Inconclusive or tool failure: re-raised by the caller
            errs.append(e)

    ths = [threading.Thread(target=one, args=j) for j in jobs]
    for t in ths:
        t.start()
    for t in ths:
        t.join()
    if errs:
        raise errs[0]
    return res


def all_failures(ctx, cfg, path, tag):
    """One TLC run with -continue: every (invariant, l) that fails on the trace."""
    r = ctx.tlc("CsptpExchangeTrace", cfg, workers=1, timeout=600, files={"trace.ndjson": path},
                allow_violation=True, tag="trace:" + tag, extra=("-continue",))
    out = r["out"]
    fails = []
    for blk in out.split("Error: Invariant ")[1:]:
        m = re.match(r"(\S+) is violated", blk)
        ls = re.findall(r"\bl = (\d+)", blk)
        if m and ls:
            fails.append((m.group(1), int(ls[-1])))
    return fails


def klass(rec):
    if rec is None:
        return "?"
    if rec["ev"] == "sresp":
        return "server " + rec.get("mk", "")
    if rec["ev"] == "req":
        return "request"
    return "client last=%s" % rec.get("mk", "")


def observations(ctx):
    """Schedules outside the environment assumptions A1/A2 of the property (found by TLC on the
    specification: CsptpExchange_obs1/obs2.cfg), executed on the real client.  They are reported as
    observations, never as violations: the two response datagrams are matched by sequence id alone,
    so a server that answers two pairs with one sequence id makes the client combine timestamps of
    different answers (obs2: both requests duplicated - protocol level; obs1: requests of a failed
    call delivered during the next call, which REUSES the sequence id - client level, see
    fixes/X01-seqid-per-attempt.diff)."""
    per = 2 if ctx.quick else 4
    scheds, cls = [], []
    for name in ("obs1", "obs2"):
        ss = vlib.read_ndjson(os.path.join(vlib.SPEC, "mc", "CsptpExchange_%s.ndjson" % name))[:per]
        scheds += ss
        cls += [name] * len(ss)
    cp = ctx.path("obs_scheds.ndjson")
    vlib.write_ndjson(cp, scheds)
    tp, out = ctx.godriver("x01", "^TestX01$", cases=cp, out_name="obs_trace.ndjson", timeout=300)
    recs = vlib.read_ndjson(tp)
    fails = all_failures(ctx, MON, tp, "obs")
    seen = {}
    for inv, l in fails:
        rec = recs[l - 1]
        seen.setdefault((cls[rec["beh"]], inv), rec)
    for (c, inv), rec in sorted(seen.items()):
        ctx.notes.append("OBSERVATION %s (outside assumption %s): real client result fails %s: t1ex=%s ex=%s t1h=%s t2h=%s "
                         "t3h=%s err=%sns rtd=%sns" % (c, "A2" if c == "obs1" else "A1", inv, rec.get("t1ex"), rec.get("ex"),
                                                      rec.get("t1h"), rec.get("t2h"), rec.get("t3h"), rec.get("err"), rec.get("rtd")))
    ctx.cov["observation_schedules"] = len(scheds)
    ctx.cov["observation_classes_reproduced"] = sorted({c for (c, _inv) in seen})
    for c in ("obs1", "obs2"):
        if not any(k[0] == c for k in seen):
            ctx.notes.append("observation class %s NOT reproduced on this tree (for obs1 that is what "
                             "fixes/X01-seqid-per-attempt.diff achieves)" % c)
    print("\n".join("NOTE property=%s %s" % (ctx.pid, n) for n in ctx.notes if n.startswith("OBSERVATION")))


def run(ctx):
    q = ctx.quick
    # ---- 1. TLC decides the property on the specification (in the background: it does not depend
    # on the repository; the schedules are generated and executed meanwhile)
    bg = {}

    def spec_side():
        try:
            jobs = [("CsptpExchange_exh.cfg", dict(workers=3, timeout=600)),
                    ("CsptpExchange_exhtc.cfg", dict(workers=1, timeout=600)),
                    ("CsptpExchange_exh2.cfg", dict(workers=1, timeout=600)),
                    ("CsptpExchange_wip.cfg", dict(workers=2, timeout=600)),
                    ("CsptpExchange_fix1.cfg", dict(workers=1, timeout=600))]
            bg["exh"] = parallel_tlc(ctx, jobs)
            if not q:
                bg["deep"] = parallel_tlc(ctx, [("CsptpExchange_deep.cfg", dict(workers=3, timeout=1500, heap="10g")),
                                                ("CsptpExchange_deep2.cfg", dict(workers=3, timeout=1500, heap="8g")),
                                                ("CsptpExchange_deep3.cfg", dict(workers=2, timeout=1500, heap="8g"))])
            # outside the assumptions: the specification itself shows the mixing (not a verdict about the code)
            bg["obs"] = parallel_tlc(ctx, [(c, dict(workers=1, timeout=300, allow_violation=True))
                                           for c in ("CsptpExchange_obs1.cfg", "CsptpExchange_obs2.cfg", "CsptpExchange_reuse.cfg")])
        except Exception as e:
            bg["err"] = e

    ctx.specdir()  # created once, before the threads use it
    th = threading.Thread(target=spec_side)
    th.start()
    try:
        body(ctx, q)
    finally:
        th.join()
    if "err" in bg:
        raise bg["err"]
    for grp in ("exh", "deep"):
        if grp in bg:
            ctx.log("TLC %s: " % grp + ", ".join("%s %d states" % (k.replace("CsptpExchange_", "").replace(".cfg", ""), v["distinct"])
                                                  for k, v in sorted(bg[grp].items())))
    for c, r in sorted(bg["obs"].items()):
        ctx.notes.append("%s (assumption dropped): TLC reports %s on the specification" % (c, r["violated"]))
        if r["violated"] is None:
            ctx.drift.append("%s no longer violates anything: the observation classes need review" % c)


def body(ctx, q):
    # ---- 2. TLC generates the schedules
    n = 30 if q else 500
    g = ctx.tlc("CsptpExchangeGen", "CsptpExchange_gen.cfg", workers=1, timeout=900, simulate="num=%d" % n, depth=90, tag="gen")
    scheds = maximal(ctx.emitted(g["out"]))
    nw = 3 if q else 16
    gw = ctx.tlc("CsptpExchangeGen", "CsptpExchange_genwip.cfg", workers=1, timeout=900, simulate="num=%d" % nw, depth=60, tag="genwip")
    wscheds = maximal(ctx.emitted(gw["out"]))[:nw]
    if len(scheds) < n // 2 or not wscheds:
        raise vlib.Inconclusive("generator produced only %d + %d schedules" % (len(scheds), len(wscheds)))
    want_ok = sum(1 for s in scheds for m in s if m.get("a") == "crecv" and m.get("res") == "ok")
    want_skip = sum(1 for s in scheds for m in s if m.get("a") == "crecv" and m.get("res") in ("skip", "error"))
    if want_ok < len(scheds) or want_skip < len(scheds) // 4:
        raise vlib.Inconclusive("schedules vacuous: %d ok, %d skip/error deliveries predicted" % (want_ok, want_skip))

    # ---- 3. the real code executes them
    cp = ctx.path("scheds.ndjson")
    vlib.write_ndjson(cp, scheds)
    tp, out = ctx.godriver("x01", "^TestX01$", cases=cp, out_name="trace_client.ndjson", timeout=1800)
    crecs = vlib.read_ndjson(tp)
    wp = ctx.path("wscheds.ndjson")
    vlib.write_ndjson(wp, wscheds)
    tp2, out2 = ctx.godriver("x01", "^TestX01Server$", cases=wp, out_name="trace_server.ndjson", timeout=900)
    srecs = vlib.read_ndjson(tp2)
    for r in srecs:
        r["beh"] += len(scheds)
    recs = crecs + srecs
    acc = [x for x in recs if x["ev"] == "accept"]
    sreq = [x for x in recs if x["ev"] == "sreq"]
    sresp = [x for x in recs if x["ev"] == "sresp"]
    ctx.log("driver: %d+%d schedules, %d records, %d accepted measurements; real server: %d requests relayed, %d datagrams back"
            % (len(scheds), len(wscheds), len(recs), len(acc), len(sreq), len(sresp)))
    if len(crecs) < want_ok or not sreq:
        raise vlib.Inconclusive("driver recorded too little: %d client records, %d relayed requests" % (len(crecs), len(sreq)))

    # ---- 4. TLC validates what the real code did
    nval = len(scheds) + len(wscheds)
    if os.environ.get("VERIF_X01_CORRUPT"):
        # negative control of the validation step itself: one field of one recorded measurement is falsified
        victim = acc[len(acc) // 2]
        fld = os.environ["VERIF_X01_CORRUPT"]
        victim[fld] = (not victim[fld]) if isinstance(victim[fld], bool) else victim[fld] + 1
    cur = recs
    for attempt in range(6):
        pp = ctx.path("trace_cur.ndjson")
        vlib.write_ndjson(pp, cur)
        ok, l, inv, tout = ctx.validate("CsptpExchangeTrace", MON, pp)
        if ok:
            break
        bad = cur[l - 1] if l else None
        beh = [x for x in cur if bad and x["beh"] == bad["beh"]]
        sched = None
        if bad:
            sched = scheds[bad["beh"]] if bad["beh"] < len(scheds) else wscheds[bad["beh"] - len(scheds)]
        ctx.violation("X01 %s %s" % (inv, klass(bad)),
                      "recorded behaviour of the real code violates %s: %s" % (inv, bad),
                      {"record": bad, "behaviour_records": beh, "schedule": sched})
        nval = 0
        if not bad:
            break
        cur = [x for x in cur if x["beh"] != bad["beh"]]
    if nval:
        fails = all_failures(ctx, STRICT, ctx.path("trace_cur.ndjson"), "strict")
        by = {}
        for inv, l in fails:
            by.setdefault(inv, []).append(cur[l - 1])
        for inv, rs in sorted(by.items()):
            ctx.drift.append("%s: %d records differ from CsptpExchange.tla, e.g. %s" % (
                inv, len(rs), {k: rs[0][k] for k in ("ev", "beh", "cl", "ex", "want", "got", "mk", "seq", "wantseq")}))
    if not acc and not ctx.violations:
        ctx.drift.append("the client never accepted a measurement (%d predicted)" % want_ok)

    # ---- 5. observation classes outside the assumptions
    observations(ctx)

    got = {}
    for x in recs:
        if x["ev"] in ("recv", "accept"):
            got[x["got"]] = got.get(x["got"], 0) + 1
    ctx.cov.update(traces_validated_against_impl=nval, evaluations=len(recs),
                   distinct_nontrivial=len({(x["ex"], x["t1h"], x["t3h"], x["mk"], x["thsame"]) for x in acc}),
                   accepted=len(acc), accepted_after_clock_step_inside_exchange=sum(1 for x in acc if not x["thsame"]),
                   outcomes=got, real_server_requests=len(sreq), real_server_responses=len(sresp),
                   exhaustive=True,
                   exhaustive_configs="CsptpExchange_exh/exhtc/exh2/wip/fix1 (and deep/deep2/deep3 in the thorough tier)",
                   rule="TLC -simulate walks of CsptpExchangeGen (5 calls; loss, reordering, delay of all four datagrams, "
                        "duplicated responses, forged responses of 7 kinds, transparent-clock residence, server clock steps "
                        "of +-40 ms, deadline expiry) executed by the harness network between the real CSPTPClientIP and a "
                        "stand-in server implementing ServerMode=paired; walks with ServerMode=wip (2 clients, duplicated "
                        "requests) relayed to the real StartCSPTPServerIP plus crafted lone / cross-client / truncated requests",
                   samples=acc[:3] + [x for x in recs if x["ev"] == "recv" and x["got"] == "skip"][:2] + sreq[:1] + sresp[:2])
    ctx.assumptions += [
        "A1: the network does not duplicate request datagrams (responses: yes); A2: no request is delivered after the call "
        "that sent it ended - outside A1/A2 the client combines timestamps of two answers (reported as OBSERVATION)",
        "the repository's CSPTP server is work in progress and never answers; the client is exercised against a stand-in "
        "that completes the declared context table (pair by source address and sequence id, answer once, 2 contexts)",
        "one client per sim schedule (a deadline expiry takes real time and would expire a concurrent call); "
        "server properties for two clients: TLC (exh2, deep2) and the relayed real-server runs",
        "t0 is not on the wire: located within 2 ms before the request's kernel receive timestamp at the harness; "
        "t3 is the returned timestamp, matched to a delivery within 2 ms",
        "the server's per-client table is not observable from outside (and not written at the pinned commit): "
        "boundedness is checked on the specification only",
        "UTC offset handling (utcCorr) only affects logged delays; two-step transparent clocks (Follow_Up correction) not modelled",
    ]
