---------------------------- MODULE NtsCookiesGen ----------------------------
(***************************************************************************)
(* Behaviour generator for the C11 conformance driver.  Every generated    *)
(* step is a step of NtsCookies!Next; what is emitted is the schedule the  *)
(* environment contributes: clock jumps (key rotation / retirement),       *)
(* which datagram of each exchange is lost, and requests of other clients  *)
(* (number of cookie/placeholder fields, length of the unique identifier). *)
(*   Exhaustive = FALSE (tlc -simulate): one random decision per step,     *)
(*     drawn with RandomElement and bound through singleton \E; a per-     *)
(*     behaviour bias steers the loss rate so that every pool level 8..1   *)
(*     and the empty pool (re-keying) are visited:                         *)
(*       bias 0..3  each exchange loses a datagram with probability b/4    *)
(*       bias 4     exchanges fail until the pool is down to one cookie,   *)
(*                  the request with seven placeholders goes through       *)
(*       bias 5     every exchange fails (pool runs empty, re-keying)      *)
(*   Exhaustive = TRUE (breadth-first): all schedules of MaxEx exchanges.  *)
(***************************************************************************)
EXTENDS NtsCookies, Json
CONSTANTS Exhaustive, Biases, TickPct, ProbePct
VARIABLES hist, bias, plan
gvars == <<vars, hist, bias, plan>>

Pick(S) == RandomElement(S)
Drops == {"none", "req", "resp"}

TickChoices ==
  LET avail == {d \in Ticks : now + d <= Horizon}
  IN IF Exhaustive THEN {0} \cup avail
     ELSE {IF avail # {} /\ Pick(1 .. 100) <= TickPct THEN Pick(avail) ELSE 0}
\* (takes the state as a parameter: TLC would evaluate a constant-level
\* definition only once, and with it the random draw)
ProbeChoices(k) ==
  IF Exhaustive THEN {0} \cup ProbeNs
  ELSE {IF ProbeNs # {} /\ Pick(1 .. 100) <= ProbePct THEN Pick(ProbeNs) ELSE 0}
UidChoices(k) == IF Exhaustive THEN ProbeUids ELSE {Pick(ProbeUids)}
DropChoices(p) ==
  IF Exhaustive THEN Drops
  ELSE LET r == Pick(1 .. 100)
           which == IF r % 2 = 0 THEN "req" ELSE "resp"
       IN {IF bias = 5 THEN which
           ELSE IF bias = 4 THEN (IF p >= 2 THEN which ELSE "none")
           ELSE IF r <= 25 * bias THEN which ELSE "none"}

Finished == nex = MaxEx /\ phase = "idle"

GIdle ==
  \E t \in TickChoices :
    IF t > 0
    THEN Tick(t) /\ hist' = Append(hist, [op |-> "tick", d |-> t, n |-> 0, u |-> 0, drop |-> "none"]) /\ UNCHANGED plan
    ELSE IF pool = << >>
    THEN Rekey /\ UNCHANGED <<hist, plan>>
    ELSE \E pr \in ProbeChoices(nex) :
      IF pr > 0
      THEN \E u \in UidChoices(nex) :
             Probe(pr, u) /\ hist' = Append(hist, [op |-> "probe", d |-> 0, n |-> pr, u |-> u, drop |-> "none"]) /\ UNCHANGED plan
      ELSE \E dr \in DropChoices(Len(pool)) :
             /\ SendRequest
             /\ plan' = dr
             /\ hist' = Append(hist, [op |-> "x", d |-> 0, n |-> 0, u |-> 0, drop |-> dr])

GNext ==
  /\ ~Finished
  /\ UNCHANGED bias
  /\ \/ phase = "idle" /\ GIdle
     \/ phase = "req"  /\ (IF plan = "req" THEN LoseRequest ELSE ServerHandle) /\ UNCHANGED <<hist, plan>>
     \/ phase = "resp" /\ (IF plan = "resp" THEN LoseResponse ELSE ClientReceive) /\ UNCHANGED <<hist, plan>>
     \/ phase = "wait" /\ Timeout /\ UNCHANGED <<hist, plan>>

HInit == Init /\ hist = << >> /\ plan = "none" /\ bias \in Biases
HSpec == HInit /\ [][GNext]_gvars

\* every generated step is a step of the specification
StepOfSpec == [][Next]_vars

Emit == Finished => PrintT(<<"CASE", ToJson([bias |-> bias, ops |-> hist])>>)
BiasAll  == 0 .. 5
BiasOne  == {0}
GTicks   == {1, 2, 3, 5, 6}
GTicksX  == {6}
GProbes  == {1, 2, 5, 7, 8, 9, 10, 12}
GProbesX == {8}
GUids    == {32, 36, 64, 160, 200, 300, 320}
GUidsX   == {200}
NoProbes == {}
=============================================================================
