SPECIFICATION Spec
CONSTANTS
  QPS = 4
  G = 4
  DPS = 4
  Variant = "code"
  AdjOffs <- OffsTwin
  AdjDurs <- DursTwin
  AdjFreqs <- FreqsExh
  StepOffs <- StepsExh
  Deltas <- DeltaExh
  DoOffs <- DoOffsSmall
  DoStats <- DoStatsSmall
  MaxOps = 3
  MaxAdv = 2
  DoAtomic = FALSE
  KeepHist = FALSE
  EpochReads = FALSE
  MaxLen = 0
INVARIANTS X04 Ghost SlewEffective
