SPECIFICATION TSpec
INVARIANTS SKnownScenario SMember
