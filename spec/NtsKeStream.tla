----------------------------- MODULE NtsKeStream -----------------------------
(***************************************************************************)
(* The NTS-KE record stream reader, net/ntske/ntske.go ReadData, reading    *)
(* through a bufio.Reader from a transport (TLS / QUIC stream) that hands   *)
(* over the byte stream in arbitrary pieces (property C14, last sentence).  *)
(*                                                                         *)
(* Steps (one action each):                                                *)
(*   Fetch    bufio.Reader.fill / Read with an empty buffer: ONE Read on    *)
(*            the transport, which returns any non-empty prefix of what is  *)
(*            still to come (the environment's choice = the segmentation)   *)
(*   Take     copy of buffered bytes to the caller                          *)
(*   Deliver  the pending read request is complete: ReadData interprets the *)
(*            header / body and issues the next request                     *)
(* A request is "full" (binary.Read -> io.ReadFull: keeps reading until n   *)
(* bytes arrived) or "single" (one reader.Read: returns what one Take       *)
(* gives).  Switch ShortCookieRead = FALSE is the code (cookie body read    *)
(* with io.ReadFull; default in every cfg); TRUE is the code before fix     *)
(* b190383 (a single reader.Read) -- kept in NtsKeStream_faithful.cfg as a  *)
(* self-test: the property section must reject it.                          *)
(* Assumed: chunks are at most bufio's buffer size (4096) and cookie bodies *)
(* are shorter than that (no direct read into the caller's slice).          *)
(***************************************************************************)
EXTENDS Integers, Sequences, FiniteSets, TLC

CONSTANTS ShortCookieRead,   \* BOOLEAN switch
          Alphabet,          \* abstract records a stream is built from
          MaxRecs,           \* records before the end-of-message record
          MaxChunks          \* pieces the transport may cut the stream into

W == INSTANCE Wire WITH PlaceholderTypedAsCookie <- FALSE,
        SweepPrefixes2 <- {}, SweepBases <- {}, SweepWide <- FALSE, NtsUidLens <- {}, NtsCkLens <- {},
        NtsMaxCk <- 0, NtsPhLens <- {}, NtsMaxPh <- 0, NtsPtShapes <- {}, SckLens <- {}, SckNs <- {},
        c <- 0

VARIABLES recs,      \* abstract records of the message (history)
          stream,    \* its bytes, ExchangeMsg.Pack
          phase,     \* "build" | "run" | "done"
          pos,       \* bytes handed to ReadData so far
          fetched,   \* bytes obtained from the transport so far (fetched - pos = bufio's Buffered())
          cuts,      \* positions at which the transport's reads ended (history = the segmentation)
          want,      \* pending read request [n, mode, for]
          got,       \* bytes received for it
          blen,      \* BodyLen of the record being read
          crit,      \* its critical bit
          data,      \* ntske.Data being filled
          err        \* ReadData's return value

vars == <<recs, stream, phase, pos, fetched, cuts, want, got, blen, crit, data, err>>

Req(n, mode, for) == [n |-> n, mode |-> mode, for |-> for]
HdrReq == Req(4, "full", "hdr")       \* binary.Read(reader, binary.BigEndian, &msg)

Init ==
  /\ recs = << >> /\ stream = << >> /\ phase = "build"
  /\ pos = 0 /\ fetched = 0 /\ cuts = << >>
  /\ want = HdrReq /\ got = << >> /\ blen = 0 /\ crit = FALSE
  /\ data = W!KeData0 /\ err = "nil"

AddRec(r) ==
  /\ phase = "build" /\ Len(recs) < MaxRecs
  /\ recs' = Append(recs, r)
  /\ UNCHANGED <<stream, phase, pos, fetched, cuts, want, got, blen, crit, data, err>>
\* the message is closed with the end-of-message record and sent
Send ==
  /\ phase = "build"
  /\ recs' = Append(recs, W!KeEom)
  /\ stream' = W!KeStream(recs')
  /\ phase' = "run"
  /\ UNCHANGED <<pos, fetched, cuts, want, got, blen, crit, data, err>>

Finish(e) == phase' = "done" /\ err' = e

NeedFetch == phase = "run" /\ Len(got) < want.n /\ fetched = pos
\* one Read on the transport
Fetch ==
  /\ NeedFetch
  /\ IF fetched = Len(stream)
     THEN \* io.EOF from the transport: io.ReadFull turns it into ErrUnexpectedEOF after a partial read
          /\ Finish(IF want.mode = "full" /\ got # << >> THEN "unexpected_eof" ELSE "eof")
          /\ UNCHANGED <<recs, stream, pos, fetched, cuts, want, got, blen, crit, data>>
     ELSE \E m \in 1 .. (Len(stream) - fetched) :
             /\ Len(cuts) + 1 < MaxChunks \/ m = Len(stream) - fetched
             /\ fetched' = fetched + m
             /\ cuts' = Append(cuts, fetched + m)
             /\ UNCHANGED <<recs, stream, phase, pos, want, got, blen, crit, data, err>>
\* bufio.Reader.Read with a non-empty buffer: copy(p, b.buf[b.r:b.w])
Take ==
  /\ phase = "run" /\ Len(got) < want.n /\ fetched > pos
  /\ LET m == W!Min2(want.n - Len(got), fetched - pos)
     IN /\ got' = got \o SubSeq(stream, pos + 1, pos + m)
        /\ pos' = pos + m
        \* a single Read returns now, whatever it got
        /\ want' = IF want.mode = "single" THEN [want EXCEPT !.n = Len(got')] ELSE want
  /\ UNCHANGED <<recs, stream, phase, fetched, cuts, blen, crit, data, err>>

BodyMode == IF ShortCookieRead THEN "single" ELSE "full"
\* the request is complete: the ReadData loop
Deliver ==
  /\ phase = "run" /\ Len(got) = want.n
  /\ got' = << >>
  /\ UNCHANGED <<recs, stream, pos, fetched, cuts>>
  /\ IF want.for = "hdr" THEN
        LET ty == W!U16At(got, 0)
            bl == W!U16At(got, 2)
            t == ty % 32768                          \* msg.Type &^= (1 << 15)
            cr == ty >= 32768                        \* hasBit(msg.Type, 15)
        IN /\ blen' = bl /\ crit' = cr /\ UNCHANGED data
           /\ CASE t = W!RecEom -> Finish("nil") /\ UNCHANGED want
                [] t = W!RecNextproto -> want' = Req(2, "full", "np") /\ UNCHANGED <<phase, err>>
                [] t = W!RecAead -> want' = Req(2, "full", "ae") /\ UNCHANGED <<phase, err>>
                [] t = W!RecCookie -> want' = Req(bl, BodyMode, "ck") /\ UNCHANGED <<phase, err>>
                [] t = W!RecServer -> want' = Req(bl, "full", "sv") /\ UNCHANGED <<phase, err>>
                [] t = W!RecPort -> want' = Req(2, "full", "pt") /\ UNCHANGED <<phase, err>>
                [] t = W!RecError -> want' = Req(2, "full", "er") /\ UNCHANGED <<phase, err>>
                [] OTHER -> IF cr THEN Finish("critical") /\ UNCHANGED want
                            ELSE want' = Req(bl, "full", "unk") /\ UNCHANGED <<phase, err>>
     ELSE
        /\ UNCHANGED <<blen, crit>>
        /\ IF want.for = "er"
           THEN Finish(W!KeErrOfCode(W!U16At(got, 0))) /\ UNCHANGED <<want, data>>
           ELSE /\ want' = HdrReq /\ UNCHANGED <<phase, err>>
                /\ data' = CASE want.for = "ae" -> [data EXCEPT !.algo = W!U16At(got, 0)]
                             \* cookie := make([]byte, msg.BodyLen); reader.Read(cookie)
                             [] want.for = "ck" -> [data EXCEPT !.cookies = Append(@, got \o W!Zeros(blen - Len(got)))]
                             [] want.for = "sv" -> [data EXCEPT !.server = got]
                             [] want.for = "pt" -> [data EXCEPT !.port = W!U16At(got, 0)]
                             [] OTHER -> data        \* np, unk: read and dropped

Build == (\E r \in Alphabet : AddRec(r)) \/ Send
Read == Fetch \/ Take \/ Deliver
Next == Build \/ Read
Spec == Init /\ [][Next]_vars

Result == [data |-> data, err |-> err]

(***************************************************************************)
(* Reference: what the stream decodes to when every read request is served  *)
(* completely (= the result for the unsegmented stream).                    *)
(***************************************************************************)
\* (the loop is Wire.tla's KeRefDecode: histories of codec calls use it as well)
Avail(s, p, n) == W!KeAvail(s, p, n)
RefDecode(s) == W!KeRefDecode(s)

(***************************************************************************)
(* Property section (C14)                                                  *)
(***************************************************************************)
\* the decoded data do not depend on how the transport cut the stream: every
\* segmentation gives the result of the unsegmented stream
SegmentationIndependent == phase = "done" => Result = RefDecode(stream)
\* records decode to the values that were encoded (each into the Data field of
\* its kind; error / unknown-critical records to their error)
KeRoundTrip == (phase = "done" /\ W!KeClaimed(recs)) => RefDecode(stream) = W!KeExpect(recs, W!KeData0)
\* sanity of the model itself
TypeOK == /\ phase \in {"build", "run", "done"}
          /\ pos <= fetched /\ fetched <= Len(stream)
          /\ Len(cuts) <= MaxChunks
=============================================================================
