SPECIFICATION Spec
CONSTANTS
  KPn = 1
  KPd = 2
  KIn = 1
  KId = 2
  G = 8
  Thr = 4
  FMax = 20
  Offs <- OffsFull
  Perturb <- PertFull
  K0s <- K0sFull
  MaxLen = 4
  StepWritesFreq = FALSE
INVARIANTS X03Pi PaGhost DecompNoStep
