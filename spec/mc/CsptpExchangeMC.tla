-------------------------- MODULE CsptpExchangeMC --------------------------
EXTENDS CsptpExchange
OneClient == {1}
TwoClients == {1, 2}
ThetasOne == {0}
ThetasTwo == {0, 40}
ThetasThree == {0, 40, -40}
=============================================================================
