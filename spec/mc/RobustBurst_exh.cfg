SPECIFICATION FairSpec
CONSTANTS
  NLoops = 2
  NSrcs = 2
  MaxSend = 3
  LookupLocked = TRUE
  Run = TRUE
INVARIANTS TypeOK NeverDead MapUnderLock
PROPERTIES Progress Drained
