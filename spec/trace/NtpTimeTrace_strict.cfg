SPECIFICATION TSpec
INVARIANTS SEncode SDecodeRepaired SAggRepaired
