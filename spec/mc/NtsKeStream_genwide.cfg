SPECIFICATION Spec
CONSTANTS
  ShortCookieRead = FALSE
  Alphabet <- AlphaGenWide
  MaxRecs = 2
  MaxChunks = 2
INVARIANTS Emit
