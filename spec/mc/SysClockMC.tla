----------------------------- MODULE SysClockMC -----------------------------
EXTENDS SysClock, TLC, Json

CONSTANT MaxLen     \* actions per generated history

\* ---- value sets (cfg files cannot hold negative numbers or sets of sets)
None == {}
\* small scope, QPS = 4 (quarter seconds), G = 4: durations -1 (panic), 0 -> 1 s, 5 -> 1 s, 8 -> 2 s, 13 -> 3 s
OffsExh  == {0, 3, -6}
DursExh  == {-1, 0, 5, 8}
DursDeep == {-1, 0, 5, 8, 13}
FreqsExh == {1, 2}
FreqsDeep == {1, 2, -3}
StepsExh == {-3, 5}
StepsDeep == {-3, 0, 5}
DeltaExh == {4}
DeltaDeep == {2, 4}
\* the two timers of equal (duration, afterFreq) adjustments: identity, not equality, decides
OffsTwin == {3, -6}
DursTwin == {5}
FreqsTwin == {2}

\* real embeddings.  A: QPS = 512, G = 8192 (one unit = 2^-22 = 15625 scaled ppm, one quantum = 1953125 ns,
\* 500 ms = 256 quanta).  B: QPS = 4, G = 262144 (one unit = 2^-20 = 62500 scaled ppm, one quantum = 250 ms)
OffsA  == {0, 1, -3, 12, 255, 256, -257, 600, -1024}
OffsA1 == {6}
OffsA2 == {6, -12}
DursA  == {0, 1, 511, 512, 513, 1023, 1024, 1535, 1536, 2048, 2560}
DursA2 == {0, 1535}
DursAneg == {-1, 0, 512, 1100}
FreqsA == {0, 3, -5, 40, -2000}
FreqsA2 == {3, -5}
StepsA == {0, 1, -1, 511, 512, -512, -513, 700, -1300}
StepsA2 == {-700}
DeltaA == {512, 1024, 100}
DeltaA2 == {512}
OffsB  == {0, 2, -1, 3, -6, 12}
DursB  == {0, 3, 4, 7, 8, 12, 17}
DursBneg == {-1, -4, 0, 4}
FreqsB == {0, 1, -2, 7, 20}
StepsB == {0, 1, -1, 3, -4, -5, 9}
DeltaB == {4, 8, 1}

\* SysAdjustment.Do at the real unit (DPS = 10^9 ns; |offset| <= 2 * 10^9 keeps TLC's 32-bit integers exact)
DoOffsNs == {0, 1, -1, 123456789, -123456789, 499999999, -499999999, 500000000, -500000000, 500000001, -500000001,
             999999999, -999999999, 1000000000, -1000000000, 1000000001, -1000000001, 1999999999, -2000000000}
DoOffsSmall == {0, 1, -2, 2, -3, 4, -4, 7, -9}     \* DPS = 4: threshold 2
DoStatsSmall == {{}, {PLL}, {FREQHOLD}, {PLL, FREQHOLD, NANO}, {6}, {4, 8, 15}, {1, 3, FREQHOLD, 9, NANO}, StatusBits}
DoStatsUser  == SUBSET (0 .. 7) \cup {s \cup {8, NANO, 15} : s \in SUBSET {PLL, 6, FREQHOLD}}

\* ---- generators: complete histories with the results the specification computes
Stop == Len(hist) >= MaxLen \/ dead
GenNext == ~Stop /\ Next
GenSpec == Init /\ [][GenNext]_vars

\* random walks (tlc -simulate): one random argument tuple per kind of call (the sets depend on a variable:
\* TLC would otherwise evaluate RandomElement once)
Pick(S) == RandomElement({x \in S : nops >= 0})
NextRand ==
  \/ AdjOffs # {} /\ Adjust(Pick(AdjOffs), Pick(AdjDurs), Pick(AdjFreqs))
  \/ StepOffs # {} /\ Step(Pick(StepOffs))
  \/ EpochReads /\ ReadEpoch
  \/ \E t \in timers : TimerFire(t)
  \/ Deltas # {} /\ Advance(Pick(Deltas))
  \/ DoOffs # {} /\ (LET o == Pick(DoOffs) st == Pick(DoStats) IN DoStep(o, st) \/ DoRead(o, st))
  \/ DoWrite
SimNext == (~Stop /\ NextRand) \/ (Stop /\ UNCHANGED vars)
SimSpec == Init /\ [][SimNext]_vars

Emit == (Stop /\ Len(hist) > 0) =>
          PrintT(<<"CASE", ToJson([qps |-> QPS, g |-> G, dps |-> DPS, ops |-> hist])>>)
=============================================================================
