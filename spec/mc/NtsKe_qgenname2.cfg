SPECIFICATION GSpec
CONSTANTS
  Transport = "quic"
  ResidueAfterFailure = FALSE
  ShortCookieRead = FALSE
  DialResetsData = TRUE
  Alpns <- AlpnsOk
  Alphabet <- AlphaNaming
  CutRecs <- CutNone
  MaxRecs = 4
  MaxDials = 2
  MaxCalls = 2
  MaxStore = 0
  CtxMode = "ignored"
  MaxStalls = 0
  StaleNextHop = FALSE
  Tails = FALSE
  Vias <- ViasMeasure
CONSTRAINT Naming NamingChain
INVARIANTS EmitNaming RunAgrees
