SPECIFICATION TSpec
INVARIANTS TCallGenuine
