---------------------------- MODULE MidpointConc ----------------------------
(***************************************************************************)
(* C02, concurrent callers.  FaultTolerantMidpoint / Median of             *)
(*   base/timemath/timemath.go and core/measurements/measurement.go        *)
(* are called from several goroutines at once (one per reference-clock     *)
(* class, one per SCION path set), every caller on its OWN slice.  The     *)
(* property's "always" includes these calls: each caller's result is the   *)
(* fault-tolerant midpoint / median of its own input.                      *)
(*                                                                         *)
(* One call = the steps of the Go function:                                *)
(*   Enter     n := len(ms)              (Shared: copy ms into the scratch)*)
(*   SortStep  one exchange of the sort  (any adjacent inversion: every    *)
(*             comparison sort is a sequence of such exchanges)            *)
(*   ReadLo    x := work[f]      (ftm)   /  work[n/2-1] or work[n/2] (med) *)
(*   ReadHi    y := work[n-1-f]; return Midpoint(x, y)                     *)
(* "work" is the caller's own slice (the code as it is: sort in place).    *)
(* With Shared = TRUE it is ONE scratch buffer of the package; that        *)
(* variant exists only as a self-test of this module (TLC must find the    *)
(* violation there).                                                       *)
(***************************************************************************)
EXTENDS Integers, Sequences, FiniteSets, TLC

CONSTANTS W,            \* word size, see Midpoint.tla
          MaxN,         \* longest input
          K,            \* number of concurrent callers
          Bands,        \* Bands[c]: the correct values of caller c (disjoint sets)
          Far,          \* arbitrary ("faulty") values any caller may also hold
          Variants,     \* subset of {"dur", "meas"}: which package is called
          Shared,       \* FALSE: the code as it is; TRUE: self-test variant
          SortedInputs  \* TRUE: inputs as multisets only (generator; the driver permutes)

P == INSTANCE Midpoint WITH Vals <- {}, s <- << >>

Callers == 1 .. K

VARIABLES phase,   \* 1..K: input of caller `phase` is being chosen; K+1: calls run
          in,      \* in[c]: the input of caller c
          vr, op,  \* vr[c] in Variants, op[c] in {"ftm", "med"}
          sl,      \* sl[c]: the caller's slice as the call leaves it
          buf,     \* the package-level scratch buffer (Shared only)
          pc,      \* "idle" | "sort" | "hi" | "done"
          x,       \* first selected value
          res,     \* returned value
          pan      \* the call panicked (index out of range)
vars == <<phase, in, vr, op, sl, buf, pc, x, res, pan>>

Running == phase = K + 1
ValsOf(c) == Bands[c] \cup Far
NFar(c, q) == Cardinality({i \in DOMAIN q : q[i] \notin Bands[c]})

Init == /\ phase = 1
        /\ in = [c \in Callers |-> << >>]
        /\ vr = [c \in Callers |-> "dur"]
        /\ op = [c \in Callers |-> "ftm"]
        /\ sl = [c \in Callers |-> << >>]
        /\ buf = << >>
        /\ pc = [c \in Callers |-> "idle"]
        /\ x = [c \in Callers |-> 0]
        /\ res = [c \in Callers |-> 0]
        /\ pan = [c \in Callers |-> FALSE]

(***************************************************************************)
(* Environment: the callers' inputs.  Values of the caller's band plus at  *)
(* most floor((n-1)/3) arbitrary ones, grown one element per step.         *)
(***************************************************************************)
Grow(c) ==
  /\ phase = c /\ Len(in[c]) < MaxN
  /\ \E v \in ValsOf(c) :
       /\ IF SortedInputs /\ in[c] # << >> THEN in[c][Len(in[c])] <= v ELSE TRUE
       /\ NFar(c, Append(in[c], v)) <= P!FaultyMax(MaxN)
       /\ in' = [in EXCEPT ![c] = Append(@, v)]
  /\ UNCHANGED <<phase, vr, op, sl, buf, pc, x, res, pan>>

Commit(c) ==
  /\ phase = c /\ Len(in[c]) >= 1
  /\ NFar(c, in[c]) <= P!FaultyMax(Len(in[c]))
  /\ \E v \in Variants, o \in {"ftm", "med"} :
       /\ vr' = [vr EXCEPT ![c] = v]
       /\ op' = [op EXCEPT ![c] = o]
  /\ sl' = [sl EXCEPT ![c] = in[c]]
  /\ phase' = c + 1
  /\ UNCHANGED <<in, buf, pc, x, res, pan>>

(***************************************************************************)
(* The call of caller c.                                                   *)
(***************************************************************************)
Work(c) == IF Shared THEN buf ELSE sl[c]
SetWork(c, w) == IF Shared THEN buf' = w /\ UNCHANGED sl
                 ELSE sl' = [sl EXCEPT ![c] = w] /\ UNCHANGED buf
IsSorted(q) == \A i \in 1 .. (Len(q) - 1) : q[i] <= q[i + 1]
SwapAt(q, i) == [q EXCEPT ![i] = q[i + 1], ![i + 1] = q[i]]

\* 1-based positions read by the call; n is the length of the caller's slice
\* (`n := len(ms)` is evaluated on entry, on the argument)
N(c) == Len(in[c])
LoIdx(c) == IF op[c] = "ftm" THEN P!FaultyMax(N(c)) + 1
            ELSE IF N(c) % 2 # 0 THEN N(c) \div 2 + 1 ELSE N(c) \div 2
HiIdx(c) == IF op[c] = "ftm" THEN N(c) - P!FaultyMax(N(c)) ELSE N(c) \div 2 + 1

Enter(c) ==
  /\ Running /\ pc[c] = "idle"
  /\ pc' = [pc EXCEPT ![c] = "sort"]
  /\ IF Shared THEN buf' = sl[c] ELSE UNCHANGED buf
  /\ UNCHANGED <<phase, in, vr, op, sl, x, res, pan>>

SortStep(c) ==
  /\ pc[c] = "sort"
  /\ \E i \in 1 .. (Len(Work(c)) - 1) :
       /\ Work(c)[i] > Work(c)[i + 1]
       /\ SetWork(c, SwapAt(Work(c), i))
  /\ UNCHANGED <<phase, in, vr, op, pc, x, res, pan>>

Panic(c) == /\ pan' = [pan EXCEPT ![c] = TRUE]
            /\ pc' = [pc EXCEPT ![c] = "done"]
            /\ UNCHANGED <<x, res>>

ReadLo(c) ==
  /\ pc[c] = "sort" /\ IsSorted(Work(c))
  /\ IF LoIdx(c) > Len(Work(c)) THEN Panic(c)
     ELSE /\ x' = [x EXCEPT ![c] = Work(c)[LoIdx(c)]]
          /\ pc' = [pc EXCEPT ![c] = "hi"]
          /\ UNCHANGED <<res, pan>>
  /\ UNCHANGED <<phase, in, vr, op, sl, buf>>

ReadHi(c) ==
  /\ pc[c] = "hi"
  /\ IF HiIdx(c) > Len(Work(c)) THEN Panic(c)
     ELSE /\ res' = [res EXCEPT ![c] = P!Mid(x[c], Work(c)[HiIdx(c)])]
          /\ pc' = [pc EXCEPT ![c] = "done"]
          /\ UNCHANGED <<x, pan>>
  /\ UNCHANGED <<phase, in, vr, op, sl, buf>>

Choose == \E c \in Callers : Grow(c) \/ Commit(c)
Step(c) == Enter(c) \/ SortStep(c) \/ ReadLo(c) \/ ReadHi(c)
Next == Choose \/ \E c \in Callers : Step(c)
Spec == Init /\ [][Next]_vars
\* generator: the rounds only (inputs, variants, operations), not the calls
GenSpec == Init /\ [][Choose]_vars

(***************************************************************************)
(* Property section (C02, per caller).  The clauses of Midpoint.tla on     *)
(* the caller's OWN input, whatever the other callers do meanwhile.        *)
(***************************************************************************)
Done(c) == pc[c] = "done"
\* a value is returned for every n >= 1
CReturns == \A c \in Callers : ~pan[c]
\* it lies between the smallest and largest correct offset / input of the caller
CContain == \A c \in Callers : (Done(c) /\ ~pan[c]) =>
   IF op[c] = "ftm" THEN P!ContainFor(in[c], res[c]) ELSE P!MedianIn(in[c], res[c])
\* it depends on the caller's multiset only (order independence across calls)
COwn == \A c \in Callers : (Done(c) /\ ~pan[c]) =>
   res[c] = IF op[c] = "ftm" THEN P!FTM(in[c]) ELSE P!Median(in[c])
\* the caller's slice is only reordered - by its own call or anybody else's
CReorders == \A c \in Callers : Running => P!IsPerm(in[c], sl[c])
\* no two calls are about to touch the same memory, one of them writing
Loc(c) == IF Shared THEN 0 ELSE c
Pending(c) == Running /\ pc[c] # "done"
Writes(c) == (pc[c] = "idle" /\ Shared) \/ (pc[c] = "sort" /\ ~IsSorted(Work(c)))
CRaceFree == \A c1, c2 \in Callers :
   (c1 # c2 /\ Pending(c1) /\ Pending(c2) /\ Loc(c1) = Loc(c2)) => ~(Writes(c1) \/ Writes(c2))
\* vacuity guard of the model itself: two calls are in progress at once
Overlap == \E c1, c2 \in Callers : c1 # c2 /\ pc[c1] \in {"sort", "hi"} /\ pc[c2] \in {"sort", "hi"}
=============================================================================
