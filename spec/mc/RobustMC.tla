------------------------------ MODULE RobustMC ------------------------------
EXTENDS Robust, Json
\* Case emitter: every finished crafted input (= a complete abstract input with the
\* outcome and site the specification predicts), read by the Go concretiser.
Emit == (c.out # "na" /\ sent \in {"none", "queued"}) => PrintT(<<"CASE", ToJson(c)>>)
KindsAll == {"ipsrv", "ipcli", "kesrv", "csptpsrv", "csptpcli", "scsrv", "sccli"}
KindsSc == {"scsrv", "sccli"}
KindsNet == {"ipsrv", "ipcli", "kesrv"}
KindsSrv == {"ipsrv"}
KindsCli == {"ipcli"}
KindsKe == {"kesrv"}
KindsCs == {"csptpsrv", "csptpcli"}
=============================================================================
