SPECIFICATION Spec
CONSTANTS
  MaxAttempts = 3
  MaxDup = 0
  Thetas <- ThetasTwo
  Gap = 12
  ItemCap = 2
  ReusePorts = FALSE
  StrictGap = TRUE
  FwdStamps <- FwdAll
INVARIANTS SameExchange HalfRTT PrevConsistent NoPanic
