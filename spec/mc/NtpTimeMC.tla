----------------------------- MODULE NtpTimeMC -----------------------------
(***************************************************************************)
(* Model-checking wrapper for NtpTime at scaled constants                  *)
(*   NsPerSec = 1000, FracUnits = 2^12, EraSecs = 2^6, Epoch = -33         *)
(* (the real epoch lies 0.514 eras before 1970; -33/64 = 0.516).           *)
(* Reference seconds 0 .. 290 = "1970" .. past the end of era 4            *)
(* (era k starts at -33 + 64 k; real: 1900, 2036, 2172, 2308, 2444, 2580). *)
(***************************************************************************)
EXTENDS NtpTime, Json

EpochScaled == -33
EraStart(k) == Epoch + k * EraSecs
RefAll  == 0 .. (EraStart(5) + 3)
OffAll  == (-(Half) - 1) .. Half              \* window -32..31 and one step outside
NsAll   == 0 .. (NsPerSec - 1)

\* sub-second classes: ends, the first values that lose a nanosecond, exactly
\* representable values (multiples of 125: n*4096/1000 is an integer), 2^k and 2^k +- 1
Pow2 == {4, 32, 256, 512}
NsCls   == {0, 1, 2, 3, 232, 233, 499, 500, 501, 996, 997, 998, 999}
             \cup {125 * j : j \in 0 .. 7} \cup Pow2 \cup {p - 1 : p \in Pow2} \cup {p + 1 : p \in Pow2}
NsFew   == {0, 1, 2, 232, 233, 234, 125, 500, 511, 512, 513, 750, 997, 998, 999}
NsGenDp == NsFew \cup {3, 126, 255, 257}
NsExh   == {0, 1, 232, 233, 234, 500, 998, 999}

\* reference classes: every era, positions at / next to the era boundary, the middle
\* of the era (where the window's ends meet the era boundary) and in between
PosCls  == {0, 1, 2, 15, 30, 31, 32, 33, 34, 47, 61, 62, 63}
RefCls  == {r \in RefAll : (r - Epoch) % EraSecs \in PosCls} \cup {0, 1}
PosFew  == {0, 1, 32, 33, 62, 63}
RefFew  == {r \in RefAll : (r - Epoch) % EraSecs \in PosFew} \cup {0}
OffCls  == {-33, -32, -31, -30, -17, -2, -1, 0, 1, 2, 15, 29, 30, 31, 32}

\* reference sub-second values: 0, one that loses a nanosecond in the round trip (233),
\* one that does not (512), the last one; the time classes contain each of them and
\* their neighbours, so nsec <, =, > nref occurs at both ends of the window
RefNsExh == {0, 233, 999}
RefNsDeep == {0, 233, 512, 999}
RefNsGen == {0, 233, 512, 999}
RefNsOne == {233}

\* every sub-second value once (evaluated by TLC when the module is loaded)
AllNs == \A n \in NsAll :
  /\ (Nsec(Frac(n)) = n \/ Nsec(Frac(n)) = n - 1)
  /\ Frac(n) < FracUnits
  /\ (n + 1 < NsPerSec => (Frac(n) < Frac(n + 1) /\ Nsec(Frac(n)) <= Nsec(Frac(n + 1))))
ASSUME AllNs

\* Case emitter (spec -> code): every reachable (reference, time) with the results
\* of every transcribed operator, for the three settings of the era switches.  Seconds of
\* the results are given relative to the reference second.
Emit == Chosen =>
  LET x == Encode(t) IN
  PrintT(<<"CASE", ToJson([
     r |-> t0[1], rn |-> t0[2], o |-> t[1] - t0[1], n |-> t[2],
     pos |-> (t0[1] - Epoch) % EraSecs, era |-> (t0[1] - Epoch) \div EraSecs,
     s32 |-> x.seconds, frac |-> x.fraction, nsec |-> Nsec(x.fraction),
     bf |-> DecodeWith(x, t0, TRUE, TRUE)[1] - t0[1],
     bw |-> DecodeWith(x, t0, FALSE, TRUE)[1] - t0[1],
     br |-> DecodeWith(x, t0, FALSE, FALSE)[1] - t0[1],
     judged |-> Judged(t, t0)])>>)
=============================================================================
