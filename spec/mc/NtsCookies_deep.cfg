SPECIFICATION Spec
CONSTANTS
  PoolMax = 8
  CookieLen = 124
  MaxPacketLen = 1280
  PlaceholderTypedAsCookie = FALSE
  CapReply = TRUE
  Day = 2
  Ticks <- TicksDeep
  Horizon = 10
  MaxEx = 1000000
  ProbeNs <- ProbesDeep
  ProbeUids <- UidsDeep
  MaxOld = 0
  Transports <- TrIP
  ScmpTypes <- ScmpNone
  HdrStates <- HdrAll
VIEW viewU
INVARIANTS SentLeavesPool FieldCount PlaceholderType ReqFits ReqFitsConst NoShrink PoolCap StaysFull RespFits RespCount ProbeAnswered FreshCookiesOpen
PROPERTIES SingleUse Answered Fresh
