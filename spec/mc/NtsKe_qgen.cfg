SPECIFICATION GSpec
CONSTANTS
  Transport = "quic"
  ResidueAfterFailure = FALSE
  ShortCookieRead = FALSE
  DialResetsData = FALSE
  Alpns <- AlpnsQuic
  Alphabet <- AlphaAll
  CutRecs <- CutCore
  MaxRecs = 2
  MaxDials = 1
  MaxCalls = 1
  MaxStore = 0
  CtxMode = "ignored"
  MaxStalls = 0
  StaleNextHop = FALSE
  Tails = FALSE
  Vias <- ViasAny
INVARIANTS Emit RunAgrees
