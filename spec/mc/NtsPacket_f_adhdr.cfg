SPECIFICATION Spec
CONSTANTS
  MaxNf = 2
  Roles <- RolesAll
  PlaceholderTypedAsCookie = TRUE
  UidChecked = TRUE
  AdWhole = FALSE
  LenChoices <- LenChoicesGen
  TruncMax = 2
INVARIANTS Sound
