SPECIFICATION Spec
CONSTANTS
  NC = 3
  MaxRounds = 1
  MaxTries = 1
  MaxDraws = 3
  SharedIdBuf = FALSE
  UidChecked = TRUE
  StoreAfterUid = TRUE
  ServeEager = FALSE
  RecvKinds <- KindsAll
INVARIANTS TypeOK OutstandingId Sound Complete CookieBinding AuthenticOnly RejectedInert DirectionsDistinct HeldIsSent
