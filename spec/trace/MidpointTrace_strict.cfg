SPECIFICATION TSpec
INVARIANTS SEqualsSpec SMid SSorted
