SPECIFICATION TSpec
INVARIANTS RNormalised RShiftDrops RTsRoundTrip RTsRevRoundTrip RPpm RDrift RFormula
  STimeval SShift STimestamp STimeFromTs SPpm SDrift SFormula
