SPECIFICATION Spec
CONSTANTS
  MaxAttempts = 2
  MaxDup = 1
  Thetas <- ThetasTwo
  Gap = 12
  ItemCap = 2
  ReusePorts = FALSE
  StrictGap = TRUE
  FwdStamps <- FwdAll
INVARIANTS SameExchange HalfRTT PrevConsistent NoPanic
