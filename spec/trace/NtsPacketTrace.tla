--------------------------- MODULE NtsPacketTrace ---------------------------
(***************************************************************************)
(* Validation of what the real net/nts + net/ntske code did with real      *)
(* packets (harness/c10) against NtsPacket.tla.                            *)
(*                                                                         *)
(* One record = one packet built by the project's encoder, one mutation,   *)
(* the outcome of the real receiving path.  Records are independent;       *)
(* positions 1..Len(Trace) are visited as a 16-ary tree so that all        *)
(* workers share the load.  The variables of NtsPacket are BOUND to the    *)
(* record (what was really done to the packet: `truth`, `mut`; what the    *)
(* real code answered: `outcome`, `ck`), and                               *)
(*   monitor (NtsPacketTrace_mon.cfg): the property section of NtsPacket   *)
(*     (Sound, Complete, CookieBinding, AuthenticOnly, RejectedInert: the  *)
(*     client's cookie pool, read before and after the call, did not grow  *)
(*     unless the response was accepted) + observed ExportKeys             *)
(*     distinctness                                                        *)
(*   strict (NtsPacketTrace_strict.cfg): the outcome is one the            *)
(*     specification predicts for this class of mutation (TLC's            *)
(*     enumeration, carried by the case), recomputed here from the         *)
(*     specification for sender substitutions and whole-field replacements;*)
(*     accepted responses stored exactly their cookies, others none.       *)
(***************************************************************************)
EXTENDS Integers, Sequences, FiniteSets, TLC, Json

MaxNf == 8
Roles == {"req", "resp", "cookie", "listener", "export"}
PlaceholderTypedAsCookie == FALSE
UidChecked == TRUE
AdWhole == TRUE
Hardened == TRUE
StopAtAuth == TRUE
CtLenExact == TRUE
StoreAfterUid == TRUE
LenChoices(x) == {}
TruncMax == 0
VARIABLES phase, role, nf, wire, mut, truth, outcome, ck, l
INSTANCE NtsPacket

Trace == ndJsonDeserialize("trace.ndjson")
N == Len(Trace)
SetOf(s) == {s[i] : i \in DOMAIN s}

TInit ==
  /\ l = 0 /\ phase = "start" /\ role = "req" /\ nf = 1 /\ wire = << >>
  /\ mut = Mut("none", NoG, "-") /\ truth = Truth(TRUE, TRUE, TRUE, {}, 0, 0)
  /\ outcome = "pending" /\ ck = Ck0
TNext ==
  /\ \E j \in 1 .. 16 : l' = 16 * l + j /\ l' <= N
  /\ LET R == Trace[l'] IN
     /\ phase' = "done"
     /\ role' = R.role
     /\ nf' = R.nf
     /\ wire' = << >>
     /\ mut' = [kind |-> R.kind, region |-> R.region, fi |-> R.fi, sub |-> R.sub, alt |-> "-"]
     /\ truth' = [key |-> R.key, dir |-> R.dir, uid |-> R.uid, touched |-> SetOf(R.touched),
                  ckey |-> R.t_ckey, csc |-> R.t_csc]
     /\ outcome' = R.out
     /\ ck' = [opened |-> R.ck_opened, key |-> R.ck_key, sc |-> R.ck_sc, cok |-> R.cok, stored |-> R.stored]
TSpec == TInit /\ [][TNext]_<<vars, l>>

R == Trace[l]

\* ------------------------------------------------------------- monitor
\* Sound, Complete, CookieBinding are NtsPacket's own formulas over the bound variables.
RDirectionsDistinct == l > 0 => R.dd

\* -------------------------------------------------------------- strict
SPredicted == l > 0 => R.out \in SetOf(R.pred)
SRecomputed ==
  (l > 0 /\ R.kind \in {"none", "swapkey", "swapdir", "foreignkey", "replay", "replaceuid", "swapcookie",
                         "appenduid", "appendcookie", "replay+appenduid", "replay+appendcookie"}) =>
     LET p == Predict(IF R.role = "listener" THEN "req" ELSE R.role, R.nf, R.kind)
     IN /\ R.out = p.out
        \* (the live listener does not show the cookie it opened)
        /\ (R.role # "listener" => R.ck_opened = p.opened)
        /\ ((R.ck_opened /\ p.opened) => (R.ck_key = p.key /\ R.ck_sc = p.sc))
        /\ R.stored = p.stored
SStored == (l > 0 /\ R.role = "resp") => R.stored = (IF R.out = "accepted" THEN R.nf ELSE 0)
=============================================================================
