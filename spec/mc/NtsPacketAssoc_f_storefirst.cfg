SPECIFICATION Spec
CONSTANTS
  NC = 2
  MaxRounds = 2
  MaxTries = 1
  MaxDraws = 4
  SharedIdBuf = FALSE
  UidChecked = TRUE
  StoreAfterUid = FALSE
  ServeEager = FALSE
  RecvKinds <- KindsAll
INVARIANTS RejectedInert
