"""C10 - NTS authentication is sound: only untampered packets under the right key pass.

spec/NtsPacket.tla   cell-level model of the NTS extension fields, the authenticator (perfect AEAD), the
                     cookies and the receiving paths of server and client; property section Sound / Complete /
                     CookieBinding
1. TLC decides the property section on every packet shape x every cell x every replacement value (small
   scope), and shows that it FAILS with the fault switches (vacuity check).
2. TLC enumerates the behaviours (shape, mutation, predicted outcome); they are folded into classes
   (role, shape, kind, region, field, part) with the set of predicted outcomes.
3. harness/c10 builds real packets with the project's encoder for every class, mutates the bytes of the
   class's region and runs the real receiving path.
4. NtsPacketTrace.tla: monitor = property section on the recorded behaviour (VIOLATION), strict = outcome
   is what the specification predicts (DRIFT).
5. Several associations in one process, overlapping exchanges: spec/NtsPacketAssoc.tla (clients with own keys,
   own pool and own outstanding request; new / send / serve / recv / proc steps interleave; identifier storage
   is a heap of buffers).  TLC explores every interleaving at small scope (per-client clauses OutstandingId,
   Sound, Complete, CookieBinding, AuthenticOnly, RejectedInert), shows that the clauses FAIL with the fault
   switches (one shared identifier buffer; cookies stored before the identifier comparison), and generates
   complete schedules (every one at the smallest scope + simulated ones at a larger scope) that
   harness/c10 TestC10Assoc replays step by step, in the generated order, on the real functions;
   NtsPacketAssocTrace.tla judges every recorded step (monitor -> VIOLATION) and replays the specification
   next to it (strict -> DRIFT).
"""
import collections, os, threading
import vlib

JUDGED = {"ntpHeader", "uidField", "cookieField", "placeholderField", "nonceLenField", "ctLenField", "nonce", "ciphertext"}
CLS = ("role", "nf", "kind", "region", "fi", "sub")
STRICT = ("SPredicted", "SRecomputed", "SStored")


def classes(raw):
    agg = collections.OrderedDict()
    for x in raw:
        k = tuple(x[f] for f in CLS)
        agg.setdefault(k, set()).add(x["out"])
    return [dict(zip(CLS, k), pred=sorted(v)) for k, v in agg.items()]


def sig_of(inv, r):
    return "C10 %s %s %s %s" % (inv, r["role"], r["kind"], r["region"] if r["region"] != "-" else "whole")


def run(ctx):
    q = ctx.quick
    # 1. design level (runs next to the generator / driver pipeline)
    ctx.specdir()
    faults = [("NtsPacket_f_nouid.cfg", "Sound", "uid comparison removed"),
              ("NtsPacket_f_parsepast.cfg", "Sound", "fields after the authenticator parsed"),
              ("NtsPacket_f_ctclamp.cfg", "Sound", "ciphertext length clamped to the datagram"),
              ("NtsPacket_f_adhdr.cfg", "Sound", "associated data = NTP header only"),
              ("NtsPacket_f_parsepast2.cfg", "AuthenticOnly", "fields after the authenticator parsed")]
    sfault = ("NtsPacket_f_storefirst.cfg", "RejectedInert", "cookies stored before the identifier comparison")
    afaults = [("NtsPacketAssoc_f_sharedid.cfg", "OutstandingId", "one identifier buffer shared by all clients"),
               ("NtsPacketAssoc_f_sharedid2.cfg", "Complete", "one identifier buffer shared by all clients"),
               ("NtsPacketAssoc_f_storefirst.cfg", "RejectedInert", "cookies stored before the identifier comparison"),
               ("NtsPacketAssoc_f_nouid.cfg", "OutstandingId", "uid comparison removed")]
    design = {}

    def design_level():
        try:
            r = ctx.tlc("NtsPacketMC", "NtsPacket_exh.cfg" if q else "NtsPacket_deep.cfg", timeout=900, workers=4)
            design["states"] = r["distinct"]
            for cfg, inv, what in (faults[:2] if q else faults) + [sfault]:
                f = ctx.tlc("NtsPacketMC", cfg, timeout=300, workers=2, allow_violation=True, tag="fault:" + cfg)
                if f["violated"] != inv:
                    raise vlib.Inconclusive("vacuity check: %s is not violated by the faulty specification (%s)" % (inv, what))
            if not q:
                ctx.tlc("NtsPacketMC", "NtsPacket_phcookie.cfg", timeout=600, workers=4)
                ctx.tlc("NtsPacketMC", "NtsPacket_unhardened.cfg", timeout=600, workers=4)
        except Exception as e:          # re-raised in the main thread
            design["err"] = e

    def assoc_design_level():
        try:
            for cfg, inv, what in afaults:
                f = ctx.tlc("NtsPacketAssocMC", cfg, timeout=300, workers=1, allow_violation=True, tag="fault:" + cfg, specdir=adir)
                if f["violated"] != inv:
                    raise vlib.Inconclusive("vacuity check: %s is not violated by the faulty specification (%s)" % (inv, what))
            design["astates"] = 0
            for cfg in (["NtsPacketAssoc_exh.cfg"] if q else ["NtsPacketAssoc_deep.cfg", "NtsPacketAssoc_exh3.cfg"]):
                r = ctx.tlc("NtsPacketAssocMC", cfg, timeout=1500, workers=4 if q else 6, specdir=adir)
                design["astates"] += r["distinct"]
        except Exception as e:          # re-raised in the main thread
            design["aerr"] = e

    assoc = {}
    adir = ctx.private_specdir()

    def assoc_level():
        try:
            _assoc_pipeline(ctx, q, assoc)
        except Exception as e:          # re-raised in the main thread
            assoc["err"] = e

    th = threading.Thread(target=design_level)
    th.start()
    th2 = threading.Thread(target=assoc_level)
    th2.start()
    th3 = threading.Thread(target=assoc_design_level)
    th3.start()
    try:
        _pipeline(ctx, q)
    finally:
        th.join()
        th2.join()
        th3.join()
    if "err" in design:
        raise design["err"]
    if "aerr" in design:
        raise design["aerr"]
    if "err" in assoc:
        raise assoc["err"]
    ctx.log("TLC exhaustive: %d distinct states (one packet), %d (several associations)" % (design["states"], design["astates"]))
    _assoc_report(ctx, q, assoc)


def _pipeline(ctx, q):
    # 2. spec -> code: the cases
    g = ctx.tlc("NtsPacketMC", "NtsPacket_gen.cfg", workers=1, timeout=600, tag="gen")
    raw = ctx.emitted(g["out"])
    cases = classes(raw)
    for k in ("replay+appenduid", "replay+appendcookie", "appenduid", "appendcookie"):
        if not any(c["kind"] == k for c in cases):
            raise vlib.Inconclusive("case generator produced no %s case" % k)
    if len(raw) < 1500 or len(cases) < 200:
        raise vlib.Inconclusive("case generator produced only %d behaviours / %d classes" % (len(raw), len(cases)))
    for c in cases:
        if c["region"] in JUDGED and "accepted" in c["pred"]:
            raise vlib.Inconclusive("specification predicts acceptance of a mutation in a judged region: %s" % c)
    cp = ctx.path("cases.ndjson")
    vlib.write_ndjson(cp, cases)
    ctx.log("generator: %d behaviours -> %d classes" % (len(raw), len(cases)))
    # 3. the real code
    trace, out = ctx.godriver("c10", "TestC10$", cases=cp, timeout=1500)
    recs = vlib.read_ndjson(trace)
    skipped = [x for x in recs if x["role"] == "skip"]
    zt = [x for x in recs if x["role"] == "note"]
    recs = [x for x in recs if x["role"] not in ("skip", "note")]
    if zt:
        ctx.notes.append("%d tail cuts removed only zero bytes (the receiver's zero fill rebuilds the same ciphertext; such a "
                         "truncated datagram is accepted by the code): not the model's mutation, skipped, not judged" % len(zt))
    if skipped:
        shapes = sorted({(x["why"], x["nf"]) for x in skipped})
        if any(nf < 8 for _, nf in shapes):
            raise vlib.Inconclusive("the tree's encoder cannot produce shapes %s" % shapes)
        ctx.notes.append("shapes the tree's encoder cannot produce (C11's subject), %d classes not exercised: %s" % (len(skipped), shapes))
    stats = "hang pre-filtered (not executed): %d, hang by watchdog: %d, packets per class: %d" % (
        sum(1 for x in recs if x["pre"]), sum(1 for x in recs if x["out"] == "hang" and not x["pre"]),
        len({x["pk"] for x in recs}))
    ctx.log("driver: %d records; %s" % (len(recs), stats))
    if os.environ.get("VERIF_C10_CORRUPT"):
        # negative control on the binding itself: corrupt one recorded field and expect the monitor to object
        which = os.environ["VERIF_C10_CORRUPT"]
        for x in recs:
            if which == "out" and x["kind"] == "flip" and x["region"] == "ciphertext" and x["out"] == "rejected":
                x["out"] = "accepted"
                break
            if which == "uid" and x["role"] == "resp" and x["kind"] == "none" and x["out"] == "accepted":
                x["uid"] = False
                break
            if which == "sc" and x["role"] == "req" and x["kind"] == "none":
                x["ck_sc"] = 2
                break
        ctx.notes.append("SELFTEST: one recorded field (%s) was corrupted on purpose" % which)
    # the concretiser must have changed exactly the region the class names (guards the driver, not the code)
    for x in recs:
        if x["kind"] == "flip" and x["touched"] != [x["region"]]:
            raise vlib.Inconclusive("concretiser touched %s for class %s" % (x["touched"], {k: x[k] for k in CLS}))
    done = {tuple(x[f] for f in CLS) for x in recs} | {(x["why"],) + tuple(x[f] for f in CLS[1:]) for x in skipped}
    missing = [c for c in cases if tuple(c[f] for f in CLS) not in done]
    if missing:
        raise vlib.Inconclusive("%d classes were not exercised, e.g. %s" % (len(missing), missing[0]))
    # 4. code -> spec
    nval, ndrift = 0, 0
    chunk = 50000
    for i in range(0, len(recs), chunk):
        part = recs[i:i + chunk]
        pp = ctx.path("chunk.ndjson")
        clean = False
        # first pass: monitor and strict invariants in one run (they are evaluated on the same bound variables);
        # a strict failure is recorded as drift and the monitor is then run on its own
        strict_done = False
        cfg = "NtsPacketTrace_all.cfg"
        for attempt in range(17):
            if not part or len(ctx.violations) >= 6:
                break
            vlib.write_ndjson(pp, part)
            ok, l, inv, tout = ctx.validate("NtsPacketTrace", cfg, pp, timeout=900)
            if ok:
                clean = True
                strict_done = strict_done or cfg == "NtsPacketTrace_all.cfg"
                break
            if not l:
                raise vlib.Inconclusive("monitor failed without a position:\n" + tout[-1500:])
            bad = part[l - 1]
            was_all, cfg = cfg == "NtsPacketTrace_all.cfg", "NtsPacketTrace_mon.cfg"
            if inv in STRICT:
                if not was_all:
                    raise vlib.Inconclusive("monitor configuration reported %s" % inv)
                strict_done = True
                ndrift += 1
                ctx.drift.append("%s: outcome %s not what NtsPacket.tla predicts (%s) for %s" %
                                 (inv, bad["out"], bad["pred"], {k: bad[k] for k in CLS + ("off", "bit", "val", "why")}))
                continue
            ctx.violation(sig_of(inv, bad),
                          "real %s path: %s violated: mutation %s/%s%s at byte %d bit %d (value %d) of a %d-field packet -> %s"
                          % ({"req": "server", "resp": "client", "cookie": "cookie", "listener": "listener (StartIPServer)"}.get(bad["role"], bad["role"]), inv,
                             bad["kind"], bad["region"], "/" + bad["sub"] if bad["sub"] != "-" else "",
                             bad["off"], bad["bit"], bad["val"], bad["nf"], bad["out"]), bad)
            # one finding per class: drop the records that would repeat this signature and look for others
            same = lambda x: (x["role"], x["kind"], x["region"], x["out"]) == (bad["role"], bad["kind"], bad["region"], bad["out"])
            part = [x for x in part if not same(x)]
        else:
            ctx.notes.append("more than 16 distinct violating classes in one chunk; remaining records not validated")
        if len(ctx.violations) >= 6:
            ctx.notes.append("6 distinct violating classes reported; the remaining records were not validated")
            break
        if not clean:
            continue
        nval += len(part)
        if strict_done:
            continue
        ok, l, inv, tout = ctx.validate("NtsPacketTrace", "NtsPacketTrace_strict.cfg", pp, timeout=900)
        if not ok:
            ndrift += 1
            b = part[l - 1] if l else None
            ctx.drift.append("%s: outcome %s not what NtsPacket.tla predicts (%s) for %s" %
                             (inv, b and b["out"], b and b["pred"], b and {k: b[k] for k in CLS + ("off", "bit", "val", "why")}))
    cnt = collections.Counter(x["out"] for x in recs)
    unj = collections.Counter((x["region"], x["out"]) for x in recs if x["kind"] in ("flip", "append") and x["region"] not in JUDGED
                              and x["role"] != "cookie")
    ctx.notes.append("outcomes: %s; %s" % (dict(cnt), stats))
    ctx.notes.append("panic/hang outcomes (none on the hardened decoders) are C08's subject; here they count as 'not accepted'. "
                     "Nothing is pre-filtered unless the start-up probe shows that this build's DecodePacket loops on Length 0.")
    ctx.notes.append("unjudged regions (predicted, not judged): %s" % {"%s:%s" % k: v for k, v in sorted(unj.items())})
    ctx.notes.append("noncePad / ctPad are empty in every packet the encoder can produce (nonce 16 B, ciphertext 16+4k B)")
    distinct = len({(x["role"], x["nf"], x["kind"], x["region"], x["fi"], x["sub"], x["off"], x["bit"], x["val"], x["pk"])
                    for x in recs if x["kind"] not in ("none", "export")})
    pick = [x for x in recs if x["kind"] == "flip" and x["region"] == "placeholderField"][:1] + \
           [x for x in recs if x["kind"] == "flip" and x["region"] == "ciphertext"][:1] + \
           [x for x in recs if x["kind"] in ("swapdir", "replay")][:2] + [x for x in recs if x["kind"] == "none"][:1]
    ctx.cov.update(
        evaluations=len(recs), distinct_nontrivial=distinct,
        rule="classes (role, number of fields, mutation kind, region, field, part) enumerated by TLC from NtsPacket.tla "
             "(requests with 1..7 cookie/placeholder fields = pool levels 8..1, responses with 1..8 cookies, one cookie); "
             "per class on real packets: %s of the region, every bit and a list of replacement values of every type/"
             "length field, tail cuts, appended bytes, whole uid / cookie / placeholder fields appended after the "
             "authenticator (also to a replayed response to another request), key / direction / uid / cookie / "
             "server-key substitutions; "
             "distinct = distinct (class, packet instance, byte, bit or value), unmutated packets not counted"
             % ("one seeded bit per byte" if q else "every bit of every byte"),
        traces_validated_against_impl=nval, classes=len(cases), exhaustive=False, samples=pick or recs[:3])
    ctx.assumptions += ["AES-SIV-CMAC (miscreant) is a secure AEAD; the sweep exercises it but proves nothing about it",
                        "the server's order of calls is reproduced by the driver from core/server/server_ip.go "
                        "(DecodePacket, FirstCookie, Decode, provider.Get, Decrypt, ProcessRequest) and "
                        "core/client/client_ip.go (DecodePacket, ProcessResponse); the listeners themselves are not run",
                        "small scope of the exhaustive TLC run: <= 3 (quick) / 5 (thorough) fields, one mutation per packet; "
                        "several associations: 2 clients x 2 requests x 2 datagrams (quick, server step right after the send; thorough: "
                        "server step interleaved freely) and 3 clients x 1 request (thorough)"]


# ---------------------------------------------------------------------------------------------------------------
# several associations in one process, overlapping exchanges (spec/NtsPacketAssoc.tla)
# ---------------------------------------------------------------------------------------------------------------
ASTRICT = ("SEnabled", "SEvent", "SState")
AINV = ("OutstandingId", "Sound", "Complete", "CookieBinding", "AuthenticOnly", "RejectedInert", "RDirectionsDistinct")


def _dimension(b):
    """What a generated behaviour exercises of the new dimension (judged on the SPEC side).
    overlap  : another client draws an identifier (new) while this client's request is outstanding (between its
               send and its proc) - the situation in which identifier storage of two clients can interfere
    midbuild : another client's new falls between this client's new and its send
    cross    : a client gets an authentic response of its own association carrying the identifier ANOTHER client drew
    stale    : ... carrying the identifier of its own EARLIER request
    foreign  : the response to another association's request arrives at the client
    genuine_after_overlap : the genuine response is processed after another client drew an identifier meanwhile"""
    st = b["steps"]
    owner = [x["c"] for x in st if x["act"] == "new"]           # who drew identifier u (1-based)
    res = set()
    sent, built, over = {}, {}, {}
    rx = {}
    for i, x in enumerate(st):
        c, a = x["c"], x["act"]
        if a == "new":
            built[c] = i
            for d in sent:
                if d != c:
                    res.add("overlap")
                    over[d] = True
            for d in built:
                if d != c:
                    res.add("midbuild")
        elif a == "send":
            built.pop(c, None)
            sent[c] = i
            over[c] = False
        elif a == "recv":
            rx[c] = x
            if x["kind"] == "otherid":
                res.add("cross" if owner[x["arg"] - 1] != c else "stale")
            elif x["kind"] == "foreign":
                res.add("foreign")
        elif a == "proc":
            if rx.get(c, {}).get("kind") == "genuine" and over.get(c):
                res.add("genuine_after_overlap")
            if rx.get(c, {}).get("kind") == "otherid" and over.get(c):
                res.add("otherid_after_overlap")
            nxt = next((y["act"] for y in st[i + 1:] if y["c"] == c), None)
            if nxt not in ("recv", "abandon"):      # accepted: the exchange is over, nothing outstanding
                sent.pop(c, None)
        elif a == "abandon":
            sent.pop(c, None)
    return res


def _assoc_pipeline(ctx, q, A):
    d = ctx.private_specdir()
    num = 120 if q else 1500
    gen = {}

    def sim():
        try:
            gen["sim"] = ctx.tlc("NtsPacketAssocGen", "NtsPacketAssoc_sim.cfg", workers=1, timeout=600, simulate="num=%d" % num,
                                 depth=300, tag="assoc-sim", specdir=ctx.private_specdir())
        except Exception as e:
            gen["err"] = e
    ths = threading.Thread(target=sim)
    ths.start()
    try:
        g = ctx.tlc("NtsPacketAssocGen", "NtsPacketAssoc_gen.cfg", workers=1, timeout=600, tag="assoc-gen", specdir=d)
    finally:
        ths.join()
    if "err" in gen:
        raise gen["err"]
    gs = gen["sim"]
    seen, beh = set(), []
    nexh = 0
    for src, out in (("exh", g["out"]), ("sim", gs["out"])):
        for b in ctx.emitted(out):
            k = repr(b["steps"])
            if k in seen:
                continue
            seen.add(k)
            beh.append(b)
            nexh += src == "exh"
    dims = collections.Counter()
    for b in beh:
        for k in _dimension(b):
            dims[k] += 1
    A["behaviours"], A["exh"], A["dims"] = len(beh), nexh, dict(dims)
    need = dict(overlap=200, midbuild=50, cross=100, stale=10, foreign=50, genuine_after_overlap=50, otherid_after_overlap=50)
    short = {k: dims.get(k, 0) for k, v in need.items() if dims.get(k, 0) < v}
    if nexh < 300 or len(beh) - nexh < num // 3 or short:
        raise vlib.Inconclusive("assoc generator: %d + %d behaviours, too few of %s" % (nexh, len(beh) - nexh, short))
    cp = ctx.path("assoc_cases.ndjson")
    vlib.write_ndjson(cp, beh)
    ctx.log("assoc generator: %d exhaustive + %d simulated behaviours, %d steps; %s"
            % (nexh, len(beh) - nexh, sum(len(b["steps"]) for b in beh), dict(dims)))
    trace, out = ctx.godriver("c10", "TestC10Assoc$", out_name="assoc.ndjson", cases=cp, timeout=900)
    recs = vlib.read_ndjson(trace)
    A["records"] = len(recs)
    A["steps"] = sum(len(b["steps"]) for b in beh)
    A["judged"] = sum(1 for x in recs if x["role"] != "-")
    A["outcomes"] = dict(collections.Counter((x["role"], x["ekind"], x["out"]) for x in recs if x["role"] != "-"))
    pre = set()
    for b in beh:
        acc = []
        for x in b["steps"]:
            acc.append((x["c"], x["act"], x["kind"], x["arg"]))
            if x["act"] in ("serve", "proc"):
                pre.add(tuple(acc))
    A["distinct"] = len(pre)
    # behaviours as lists of records
    groups = collections.OrderedDict()
    for x in recs:
        groups.setdefault(x["bn"], []).append(x)
    A["cut"] = sum(1 for bn, g_ in groups.items() if len(g_) < len(beh[bn - 1]["steps"])) + (len(beh) - len(groups))
    A["viol"], A["drift"] = [], []

    def write(gr):
        tp, sp = ctx.path("assoc_trace.ndjson"), ctx.path("assoc_starts.ndjson")
        flat, starts = [], []
        for bn, g_ in gr.items():
            starts.append(dict(s=len(flat) + 1, n=len(g_)))
            flat += g_
        vlib.write_ndjson(tp, flat)
        vlib.write_ndjson(sp, starts)
        return flat, {"trace.ndjson": tp, "starts.ndjson": sp}

    def sched(g_, upto):
        return " ".join("%d.%s%s" % (x["c"], x["act"], "(%s%s)" % (x["kind"], ",%d" % x["arg"] if x["arg"] else "") if x["act"] == "recv" else "")
                        for x in g_ if x["i"] <= upto)

    cls = lambda x: (x["role"], x["ekind"], x["out"], x["key"], x["dir"], x["uid"], x["pristine"], x["stored"] > 0, x["cok"])
    gr = collections.OrderedDict(groups)
    clean, strict_done = False, False
    cfg = "NtsPacketAssocTrace_all.cfg"      # first pass: monitor and strict invariants in one run

    def drift_of(r, flat):
        l = ctx.trace_state_l(r["out"])
        b = flat[l - 1] if l else None
        return ("%s: step %s of client %s (%s -> %s; holds %s, sent %s, pool %s) is not what NtsPacketAssoc.tla does after: %s"
                % (r["violated"], b and b["act"], b and b["c"], b and b["ekind"], b and b["out"], b and b["held"],
                   b and b["wuid"], b and b["pool"], b and sched(groups[b["bn"]], b["i"])))

    for attempt in range(9):
        if not gr:
            break
        flat, files = write(gr)
        r = ctx.tlc("NtsPacketAssocTrace", cfg, workers=4, timeout=900, files=files,
                    allow_violation=True, tag="trace:" + cfg, specdir=d)
        if not r["violated"]:
            clean = True
            strict_done = strict_done or cfg == "NtsPacketAssocTrace_all.cfg"
            break
        was_all, cfg = cfg == "NtsPacketAssocTrace_all.cfg", "NtsPacketAssocTrace_mon.cfg"
        if was_all and r["violated"] in ASTRICT:
            strict_done = True
            A["drift"].append(drift_of(r, flat))
            continue
        l = ctx.trace_state_l(r["out"])
        if not l or r["violated"] not in AINV:
            raise vlib.Inconclusive("assoc monitor failed without a position / with %s:\n%s" % (r["violated"], r["out"][-1500:]))
        bad = flat[l - 1]
        A["viol"].append((r["violated"], bad, sched(groups[bad["bn"]], bad["i"])))
        k = cls(bad)
        gr = collections.OrderedDict((bn, g_) for bn, g_ in gr.items() if not any(cls(x) == k for x in g_))
    A["validated"] = sum(len(g_) for g_ in gr.values()) if clean else 0
    if clean and gr and not strict_done:
        flat, files = write(gr)
        r = ctx.tlc("NtsPacketAssocTrace", "NtsPacketAssocTrace_strict.cfg", workers=4, timeout=900, files=files,
                    allow_violation=True, tag="trace:NtsPacketAssocTrace_strict.cfg", specdir=d)
        if r["violated"]:
            A["drift"].append(drift_of(r, flat))
    A["samples"] = [dict(schedule=sched(g_, 99), judged=[{k: x[k] for k in ("c", "role", "ekind", "out", "key", "dir", "uid", "stored")}
                                                         for x in g_ if x["role"] != "-"])
                    for bn, g_ in list(groups.items())[len(groups) // 2:len(groups) // 2 + 1]]


def _assoc_report(ctx, q, A):
    for inv, bad, sch in A["viol"]:
        ctx.violation("C10 %s %s %s assoc" % (inv, bad["role"], bad["ekind"]),
                      "several associations in one process: %s violated for client %d: %s packet (right key %s, right direction %s, "
                      "identifier of its outstanding request %s, own encoder's answer %s) -> %s, %d cookies taken; schedule: %s"
                      % (inv, bad["c"], bad["ekind"], bad["key"], bad["dir"], bad["uid"], bad["pristine"], bad["out"], bad["stored"], sch),
                      dict(record=bad, schedule=sch))
    ctx.drift += A["drift"]
    ctx.log("assoc driver: %d records (%d judged) of %d behaviours; %s" % (A["records"], A["judged"], A["behaviours"], A["dims"]))
    ctx.notes.append("several associations in one process with overlapping exchanges (NtsPacketAssoc.tla): %d generated behaviours "
                     "(%d = every complete schedule of 2 clients x 1 request x 1 datagram with genuine / other-identifier datagrams, %d simulated with 3 clients x 2 requests x 2 "
                     "datagrams), %d steps replayed in the generated order on the real functions (each client on its own goroutine), "
                     "%d judged verdicts. Behaviours exercising the dimension, counted on the generated schedules: %s. "
                     "(overlap: another client draws an identifier while this client's request is outstanding; midbuild: between this "
                     "client's NewRequestPacket and EncodePacket; genuine_after_overlap / otherid_after_overlap: the genuine response / an "
                     "authentic response with another identifier is processed after such an overlap; cross: authentic response of the "
                     "client's own association carrying the identifier another client drew; stale: ... of its own earlier request; "
                     "foreign: another association's response arrives). "
                     "Behaviours cut short because the real run left the schedule: %d. Outcomes: %s"
                     % (A["behaviours"], A["exh"], A["behaviours"] - A["exh"], A["records"], A["judged"], A["dims"], A["cut"],
                        {"%s/%s/%s" % k: v for k, v in sorted(A["outcomes"].items())}))
    ctx.notes.append("RejectedInert (a response that is not accepted leaves the client's cookie pool as it was; pool read through "
                     "Fetcher.VerifData before and after every ProcessResponse) is judged on every client record of both traces")
    ctx.cov["evaluations"] = ctx.cov.get("evaluations", 0) + A["judged"]
    ctx.cov["distinct_nontrivial"] = ctx.cov.get("distinct_nontrivial", 0) + A["distinct"]
    ctx.cov["traces_validated_against_impl"] = ctx.cov.get("traces_validated_against_impl", 0) + A["validated"]
    ctx.cov["assoc_behaviours"] = A["behaviours"]
    ctx.cov["assoc_dimension_counts"] = A["dims"]
    ctx.cov["rule"] = ctx.cov.get("rule", "") + (
        "; several associations: complete schedules of NtsPacketAssoc.tla (all of the smallest scope, simulated ones of a larger "
        "scope, duplicates removed), distinct = distinct schedule prefixes ending in a judged step (serve / proc)")
    ctx.cov["samples"] = list(ctx.cov.get("samples", [])) + A["samples"]
    ctx.assumptions.append("several associations: the steps of different clients are executed one at a time in the generated order "
                           "(sequential consistency of the interleaving; truly simultaneous access - a data race - is not produced)")
