SPECIFICATION SpecBig
CONSTANTS
  MaxClocks = 64
  Rounds = 1
  DVals = {1, 2, 3, 5, 90, 7200, 259200, 3000000}
  Overlap = TRUE
  Hist = TRUE
  Fault = "none"
INVARIANTS EmitHist OutcomeIsOfForm ByDeadline ExactlyOncePrefix InTimeCounted NoStuckLeak SecondCallRefused CounterRestored
