"""X05 - NTS-KE server side (core/server ntske.go, ntske_ip.go; net/ntske ReadData, ExportKeys, cookies,
provider): one message per connection, Error(1) iff the request is not accepted, shape of the response,
cookies seal this connection's TLS session keys under a current provider key, all cookies distinct, a
silent client does not hold up the others (extension of the specification's coverage; not one of the
listed properties)."""
import os, re, threading
import vlib

MON = "NtsKeServerTrace_mon.cfg"
STRICT = "NtsKeServerTrace_strict.cfg"
FAULTS = dict(shared="CookiesSealSession", nonce="CookiesDistinct", after="OneMessage", seq="StillServingSafe",
              code2="ErrorIffBad", stale="KeyCurrent", port="ResponseShape", swap="CookiesSealSession")


def parallel_tlc(ctx, jobs, width=4):
    res, errs = {}, []
    sem = threading.Semaphore(width)

    def one(cfg, kw):
        with sem:
            try:
                res[cfg] = ctx.tlc("NtsKeServerMC", cfg, specdir=ctx.private_specdir(), **kw)
            except Exception as e:
                errs.append(e)

    ths = [threading.Thread(target=one, args=j) for j in jobs]
    for t in ths:
        t.start()
    for t in ths:
        t.join()
    if errs:
        raise errs[0]
    return res


def all_failures(ctx, cfg, path, tag):
    r = ctx.tlc("NtsKeServerTrace", cfg, workers=1, timeout=600, files={"trace.ndjson": path},
                allow_violation=True, tag="trace:" + tag, extra=("-continue",))
    fails = []
    for blk in r["out"].split("Error: Invariant ")[1:]:
        m = re.match(r"(\S+) is violated", blk)
        ls = re.findall(r"\bl = (\d+)", blk)
        if m and ls:
            fails.append((m.group(1), int(ls[-1])))
    return fails


def klass(rec):
    if rec is None:
        return "?"
    return "request=%s end=%s got=%s" % (rec.get("acc"), rec.get("end"), rec.get("got"))


def run(ctx):
    q = ctx.quick
    bg = {}

    def spec_side():
        try:
            jobs = [("NtsKeServer_exh.cfg", dict(workers=3, timeout=900)),
                    ("NtsKeServer_exh1.cfg", dict(workers=1, timeout=600)),
                    ("NtsKeServer_live.cfg", dict(workers=1, timeout=600))]
            jobs += [("NtsKeServer_f_%s.cfg" % f, dict(workers=1, timeout=300, allow_violation=True)) for f in sorted(FAULTS)]
            bg["exh"] = parallel_tlc(ctx, jobs)
            if not q:
                bg["deep"] = parallel_tlc(ctx, [("NtsKeServer_exh2.cfg", dict(workers=3, timeout=1800)),
                                                ("NtsKeServer_exh3.cfg", dict(workers=3, timeout=1800)),
                                                ("NtsKeServer_deep.cfg", dict(workers=4, timeout=2400, heap="8g")),
                                                ("NtsKeServer_deep2.cfg", dict(workers=3, timeout=1800)),
                                                ("NtsKeServer_deep3.cfg", dict(workers=3, timeout=2400, heap="8g"))], width=5)
        except Exception as e:
            bg["err"] = e

    ctx.specdir()
    th = threading.Thread(target=spec_side)
    th.start()
    try:
        body(ctx, q)
    finally:
        th.join()
    if "err" in bg:
        raise bg["err"]
    for f, inv in sorted(FAULTS.items()):
        r = bg["exh"]["NtsKeServer_f_%s.cfg" % f]
        if r["violated"] != inv:
            raise vlib.Inconclusive("fault variant %s: TLC reports %s on the specification, %s expected (the property "
                                    "section lost its teeth)" % (f, r["violated"], inv))
    ctx.cov["fault_variants_refuted_by_tlc"] = sorted(FAULTS)
    for grp in ("exh", "deep"):
        if grp in bg:
            ctx.log("TLC %s: " % grp + ", ".join("%s %d states" % (k.replace("NtsKeServer_", "").replace(".cfg", ""), v["distinct"])
                                                  for k, v in sorted(bg[grp].items()) if "_f_" not in k))


def body(ctx, q):
    # ---- TLC generates the behaviours
    n = 150 if q else 1500
    g = ctx.tlc("NtsKeServerGen", "NtsKeServer_gen.cfg", workers=1, timeout=900, simulate="num=%d" % n, depth=150, tag="gen")
    behs = ctx.emitted(g["out"])
    if len(behs) < n // 2:
        raise vlib.Inconclusive("generator produced only %d behaviours" % len(behs))
    exps = [e for b in behs for e in b["exp"]]
    cnt = lambda p: sum(1 for e in exps if p(e))
    want = dict(success=cnt(lambda e: e["want"] == "success"), error=cnt(lambda e: e["want"] == "error"),
                stalled=cnt(lambda e: e["stalled"]), ill=cnt(lambda e: e["acc"] == "ill"),
                rotated=cnt(lambda e: e["kmax"] > e["kmin"]),
                concurrent_with_stall=sum(1 for b in behs if any(e["stalled"] for e in b["exp"]) and any(e["want"] == "success" for e in b["exp"])),
                truncated=sum(1 for b in behs for m in b["hist"] if m["a"] in ("cuthdr", "cutbody", "half", "fin")))
    lim = len(behs) // 10
    if want["success"] < len(behs) // 2 or want["error"] < len(behs) // 2 or min(want["stalled"], want["ill"], want["rotated"],
                                                                              want["concurrent_with_stall"], want["truncated"]) < max(2, lim // 3):
        raise vlib.Inconclusive("behaviours vacuous: %s" % want)

    # ---- the real server plays them
    cp = ctx.path("behs.ndjson")
    vlib.write_ndjson(cp, behs)
    tp, out = ctx.godriver("x05", "^TestX05$", cases=cp, timeout=1500)
    recs = vlib.read_ndjson(tp)
    meta = [r for r in recs if r["ev"] == "meta"]
    recs = [r for r in recs if r["ev"] == "conn"]
    if not meta:
        raise vlib.Inconclusive("driver did not finish")
    got = {}
    for r in recs:
        got[r["got"]] = got.get(r["got"], 0) + 1
    ctx.log("driver: %d behaviours, %d connections, outcomes %s, rotation=%s handler_visible=%s" % (len(behs), len(recs), got, meta[0]["rotation"], meta[0]["handler_visible"]))
    burst = [r for r in recs if r["beh"] >= len(behs)]
    if meta[0].get("stopped"):
        ctx.log("driver stopped after a positively established 'blocked' / 'not closed' observation")
    elif len(recs) - len(burst) < len(exps) * 9 // 10:
        raise vlib.Inconclusive("driver recorded %d connections of %d" % (len(recs), len(exps)))
    unobs = [r for r in recs if r["got"] == "unobserved" and not r["released"]]
    if len(unobs) > len(recs) // 5:
        raise vlib.Inconclusive("%d of %d connections unobserved (load?): e.g. %s" % (len(unobs), len(recs), unobs[0]))
    if not meta[0]["rotation"]:
        ctx.notes.append("provider rotation not available on this tree (fields renamed): Rotate checked on the specification only")

    # ---- TLC validates what the clients saw
    nval = len(behs)
    cur = recs
    for attempt in range(8):
        pp = ctx.path("trace_cur.ndjson")
        vlib.write_ndjson(pp, cur)
        ok, l, inv, tout = ctx.validate("NtsKeServerTrace", MON, pp)
        if ok:
            break
        bad = cur[l - 1] if l else None
        ctx.violation("X05 %s %s" % (inv, klass(bad)),
                      "what a client observed of the real NTS-KE server violates %s: %s" % (inv, bad),
                      {"record": bad, "behaviour": behs[bad["beh"]] if bad and bad["beh"] < len(behs) else "burst of simultaneous complete requests"})
        nval = 0
        if not bad:
            break
        cur = [x for x in cur if not (x["acc"] == bad["acc"] and x["end"] == bad["end"] and x["got"] == bad["got"])]
    if nval:
        fails = all_failures(ctx, STRICT, ctx.path("trace_cur.ndjson"), "strict")
        by = {}
        for inv, l in fails:
            by.setdefault(inv, []).append(cur[l - 1])
        for inv, rs in sorted(by.items()):
            ctx.drift.append("%s: %d connections differ from NtsKeServer.tla, e.g. %s" % (
                inv, len(rs), {k: rs[0][k] for k in ("beh", "c", "acc", "end", "want", "got", "wantnck", "note")}))
    succ = [r for r in recs if r["got"] == "success"]
    ncook = sum(len(r["cookies"]) for r in recs)
    illok = [r for r in recs if r["acc"] == "ill" and r["got"] == "success"]
    if illok:
        ctx.notes.append("OBSERVATION (not judged) D1: %d requests with a declared body length of 4 on a fixed-size record were "
                         "answered with a success response as NtsKeServer.tla predicts (the surplus bytes are read as the next "
                         "record header)" % len(illok))
    if meta[0].get("noalpn", "").startswith("success"):
        ctx.notes.append("OBSERVATION (not judged): a TLS client that offers no ALPN protocol gets a %s; the handler does not look "
                         "at ConnectionState().NegotiatedProtocol (RFC 8915 section 3 wants ntske/1 negotiated)" % meta[0]["noalpn"])
    eomill = [r for r in recs if r["acc"] == "ill" and r["got"] == "unobserved"]
    for nn in ctx.notes:
        if nn.startswith("OBSERVATION"):
            print("NOTE property=%s %s" % (ctx.pid, nn))
    ctx.cov.update(traces_validated_against_impl=nval, evaluations=len(recs), distinct_nontrivial=len({(r["acc"], r["end"], r["got"], r["k0"], r["k1"], len(r["cookies"])) for r in recs}),
                   outcomes=got, predicted=want, cookies_opened=ncook, success_responses=len(succ),
                   answered_while_another_connection_was_silent=sum(1 for r in succ if any(x["beh"] == r["beh"] and x["stalled"] for x in recs)),
                   unobserved=len(unobs), exhaustive=True, burst_connections=len(burst),
                   exhaustive_configs="NtsKeServer_exh/exh1/live + 8 fault variants (exh2/exh3/deep/deep2/deep3 in the thorough tier)",
                   rule="TLC -simulate walks of NtsKeServerGen (3 connections, <= 4 records each over 14 record kinds, wrong declared "
                        "lengths, truncation inside a header / a body / at a boundary by close_notify or bare FIN, client close, silent "
                        "clients, provider rotations) played by scripted TLS 1.3 clients against the real StartNTSKEServerIP; then bursts of 6 complete requests whose End of Message records are written "
                        "at the same moment (handlers' Export/Build steps interleaving)",
                   samples=succ[:1] + [r for r in recs if r["got"] == "error"][:2] + [r for r in recs if r["stalled"]][:1] + illok[:1])
    ctx.assumptions += [
        "client-side moves are imposed in the generated order; the server's own steps cannot be (the model's 'await' marks where "
        "the handler had closed); KeyCurrent is judged against the provider's current key before the dial and after the reply",
        "a client that closes its connection observes nothing: ErrorIffBad for 'closed' is checked on the specification only; "
        "'fin' (TCP FIN without close_notify, reading side kept) is what the server sees of such a client",
        "'blocked' needs a positive experiment (answered only after the silent connection was closed, and promptly without "
        "it); 'not closed' needs the handler goroutine to be gone while the connection is still open; deadlines end as unobserved",
        "errNoCookie / Pack failures (error code 2) are unreachable from outside and not modelled",
    ]
