SPECIFICATION Spec
CONSTANTS
  Clients <- OneClient
  MaxExch = 2
  MaxDupReq = 0
  MaxDupResp = 1
  MaxInject = 1
  MaxTC = 1
  Thetas <- ThetasTwo
  CtxCap = 2
  ServerMode = "paired"
  ReusePorts = FALSE
  LateRequests = FALSE
  SeqPerAttempt = FALSE
INVARIANTS OneExchange HalfRTT AcceptOnlyMatching PairsOK AnsweredOnce CtxBounded CtxOwn RespOwn NoAnswer
