package c01

import (
	"context"
	"errors"
	"fmt"
	"log/slog"
	"runtime"
	"strings"
	stdsync "sync"
	"testing"
	"testing/synctest"
	"time"

	"github.com/prometheus/client_golang/prometheus"

	"example.com/scion-time/core/client"
	"example.com/scion-time/core/sync"
)

var errScripted = errors.New("scripted measurement failure")

// step is what one source does in one round.
type step struct {
	kind  string        // ok | err | late | never
	val   time.Duration // ok, late
	delay time.Duration
}

// scriptedClock implements client.ReferenceClock: the i-th call plays step i.
type scriptedClock struct {
	steps []step
	calls int
}

func (c *scriptedClock) MeasureClockOffset(ctx context.Context) (time.Time, time.Duration, error) {
	i := c.calls
	c.calls++
	if i >= len(c.steps) {
		return time.Time{}, 0, errScripted
	}
	s := c.steps[i]
	switch s.kind {
	case "never":
		<-ctx.Done()
		return time.Time{}, 0, ctx.Err()
	case "err":
		time.Sleep(s.delay)
		return time.Time{}, 0, errScripted
	default: // ok, late
		time.Sleep(s.delay)
		return time.Now(), s.val, nil
	}
}

// logged is the "correcting clock" record of one loop iteration.
type logged struct {
	ok                                 bool
	refOk, peerOk                      bool
	refOff, refCorr, peerOff, peerCorr float64
}

// observed is everything seen between two clk.Sleep calls, and what the fake
// clock did during the Sleep call before them (half intervals; -1: not a whole
// number of half intervals).
type observed struct {
	dos   []time.Duration
	logs  []logged
	el    int64  // how far the reading clk.Now() moved across that Sleep call
	slept int64  // (virtual) time until that Sleep call returned
	epoch uint64 // clk.Epoch() when it returned
}

// elapse is the environment's choice for one clk.Sleep call (SyncRound.tla,
// "local clock"): the call returns after slp half intervals and the reading is
// stepped by stp half intervals meanwhile.
type elapse struct{ slp, stp int64 }

var onTime = elapse{2, 0}

type recorder struct {
	mu       stdsync.Mutex // the watchdog reads rounds/cur from outside the bubble
	rounds   []observed
	cur      observed
	nrounds  int // Sleep calls to let through before ending the goroutine
	driftPer int64
	tau      time.Duration
	touched  bool // Drift aside, the loop was reached (Do / Sleep / log)
	// the local clock: reading = bubble time + skew
	interval time.Duration // cfg.SyncInterval
	elapse   []elapse      // elapse[k] is played by the k-th Sleep call (k >= 1)
	skew     time.Duration
	epoch    uint64
}

// fake timebase.SystemClock
func (r *recorder) Epoch() uint64 {
	r.mu.Lock()
	defer r.mu.Unlock()
	return r.epoch
}
func (r *recorder) Now() time.Time {
	r.mu.Lock()
	defer r.mu.Unlock()
	return time.Now().Add(r.skew)
}
func (r *recorder) Step(time.Duration)                           {}
func (r *recorder) Adjust(time.Duration, time.Duration, float64) {}
func (r *recorder) Drift(d time.Duration) time.Duration {
	return time.Duration(r.driftPer * int64(d/r.tau))
}
func (r *recorder) Sleep(d time.Duration) {
	r.mu.Lock()
	r.touched = true
	r.rounds = append(r.rounds, r.cur)
	r.cur = observed{}
	k := len(r.rounds)
	last := k >= r.nrounds
	r.mu.Unlock()
	if last {
		runtime.Goexit()
	}
	e := onTime
	if k < len(r.elapse) {
		e = r.elapse[k]
	}
	half := r.interval / 2
	t0, r0 := time.Now(), r.Now()
	if e.stp != 0 { // the reading is stepped: a new epoch
		r.mu.Lock()
		r.skew += time.Duration(e.stp) * half
		r.epoch++
		r.mu.Unlock()
	}
	time.Sleep(d + time.Duration(e.slp-2)*half) // returns late by slp-2 half intervals
	slept, el := time.Since(t0), r.Now().Sub(r0)
	r.mu.Lock()
	r.cur.slept, r.cur.el, r.cur.epoch = halves(slept, half), halves(el, half), r.epoch
	r.mu.Unlock()
}

func halves(d, half time.Duration) int64 {
	if half <= 0 || d%half != 0 {
		return -1
	}
	return int64(d / half)
}

// recording adjustments.Adjustment
func (r *recorder) Do(offset time.Duration) {
	r.mu.Lock()
	r.touched = true
	r.cur.dos = append(r.cur.dos, offset)
	r.mu.Unlock()
}

// slog.Handler
func (r *recorder) Enabled(context.Context, slog.Level) bool { return true }
func (r *recorder) WithAttrs([]slog.Attr) slog.Handler       { return r }
func (r *recorder) WithGroup(string) slog.Handler            { return r }
func (r *recorder) Handle(_ context.Context, rec slog.Record) error {
	if rec.Message != "correcting clock" {
		return nil
	}
	l := logged{}
	seen := 0
	rec.Attrs(func(a slog.Attr) bool {
		switch a.Key {
		case "refClkOk":
			l.refOk = a.Value.Bool()
		case "peerClkOk":
			l.peerOk = a.Value.Bool()
		case "refClkOff":
			l.refOff = a.Value.Float64()
		case "refClkCorr":
			l.refCorr = a.Value.Float64()
		case "peerClkOff":
			l.peerOff = a.Value.Float64()
		case "peerClkCorr":
			l.peerCorr = a.Value.Float64()
		default:
			return true
		}
		seen++
		return true
	})
	l.ok = seen == 6
	r.mu.Lock()
	r.touched = true
	r.cur.logs = append(r.cur.logs, l)
	r.mu.Unlock()
	return nil
}

type result struct {
	panicked bool
	msg      string
	rec      *recorder
}

// runOnce executes the real sync.Run in a synctest bubble until the fake clock
// has seen nrounds Sleep calls (or Run panicked).
//
// hungAfter is REAL time for one behaviour (normally well under 10 ms): virtual
// time only advances when every goroutine of the bubble is blocked, so a loop
// that spins keeps the bubble, and this driver, from ever finishing. onHang is
// then called with what was observed so far (it records the pending round,
// flushes the trace and ends the process: a spinning goroutine cannot be stopped).
const hungAfter = 30 * time.Second

func runOnce(t *testing.T, cfg sync.Config, driftPer int64, tau time.Duration, nrounds int,
	refs, peers []*scriptedClock, el []elapse, onHang func(done []observed, pending observed)) result {
	res := result{rec: &recorder{nrounds: max(nrounds, 1), driftPer: driftPer, tau: tau,
		interval: cfg.SyncInterval, elapse: el}}
	if onHang != nil {
		wd := time.AfterFunc(hungAfter, func() { // created outside the bubble: real time
			res.rec.mu.Lock()
			done := append([]observed{}, res.rec.rounds...)
			pending := res.rec.cur
			res.rec.mu.Unlock()
			onHang(done, pending)
		})
		defer wd.Stop()
	}
	prometheus.DefaultRegisterer = prometheus.NewRegistry()
	rc := make([]client.ReferenceClock, len(refs))
	for i := range refs {
		rc[i] = refs[i]
	}
	pc := make([]client.ReferenceClock, len(peers))
	for i := range peers {
		pc[i] = peers[i]
	}
	// The driver ends a behaviour by panicking out of Run from the fake clock.
	// An implementation with long-lived worker goroutines (started once, fed per
	// round) leaves them parked on their channels then; synctest reports that as
	// "main bubble goroutine has exited but blocked goroutines remain".  That is
	// the driver's way of stopping Run, not behaviour of Run: tolerated.  (The
	// other deadlock report - all goroutines blocked while Run is still running -
	// is not touched: it stays a failure of the driver.)
	bubble := func(f func(t *testing.T)) {
		defer func() {
			if p := recover(); p != nil {
				if s := fmt.Sprint(p); !strings.Contains(s, "main bubble goroutine has exited") {
					panic(p)
				}
			}
		}()
		synctest.Test(t, f)
	}
	bubble(func(t *testing.T) {
		done := make(chan struct{})
		go func() {
			defer close(done)
			defer func() {
				if p := recover(); p != nil {
					res.panicked = true
					res.msg = fmt.Sprint(p)
				}
			}()
			sync.Run(slog.New(res.rec), cfg, res.rec, res.rec, rc, pc)
		}()
		<-done
		// let late answers, deadline timers and drain goroutines of the last
		// round finish (virtual time) before the bubble's main goroutine returns
		time.Sleep(time.Hour)
		synctest.Wait()
	})
	return res
}
