// Package c03 is the scripted network + server harness for C03 (and C05):
// the real core/client.IPClient talks over loopback to the harness, which plays
// the network (drop, duplicate, hold, reorder) and runs the real server handler
// (core/server via the verif hooks) with real kernel timestamps shifted by a
// controllable clock offset theta. Schedules come from TLC (NtpExchangeGen).
// What the client did with a datagram is learned from the measurement call, the
// wire, the kernel's view of the client's socket and the client's exported seams
// (observe.go), never from its log.
package c03

import (
	"context"
	"fmt"
	"log/slog"
	"net"
	"net/netip"
	"os"
	"runtime"
	"strconv"
	"strings"
	"sync"
	"sync/atomic"
	"time"

	btimebase "example.com/scion-time/base/timebase"
	"example.com/scion-time/core/server"
	"example.com/scion-time/core/timebase"
	"example.com/scion-time/net/ntp"
	"example.com/scion-time/net/udp"
)

// ------------------------------------------------------------------ clock
func gid() int64 {
	var buf [64]byte
	n := runtime.Stack(buf[:], false)
	s := strings.TrimPrefix(string(buf[:n]), "goroutine ")
	if i := strings.IndexByte(s, ' '); i > 0 {
		id, _ := strconv.ParseInt(s[:i], 10, 64)
		return id
	}
	return -1
}

// simClock: the client reads real time, the server goroutine real time + theta.
type simClock struct {
	theta     atomic.Int64 // ns
	serverGID atomic.Int64
}

func (c *simClock) Epoch() uint64 { return 0 }
func (c *simClock) Now() time.Time {
	t := time.Now().UTC()
	if gid() == c.serverGID.Load() {
		t = t.Add(time.Duration(c.theta.Load()))
	}
	return t
}
func (c *simClock) Drift(time.Duration) time.Duration            { return 0 }
func (c *simClock) Step(time.Duration)                           {}
func (c *simClock) Adjust(time.Duration, time.Duration, float64) {}
func (c *simClock) Sleep(d time.Duration)                        { time.Sleep(d) }

var _ btimebase.SystemClock = (*simClock)(nil)

var Clock = func() *simClock {
	c := &simClock{}
	c.serverGID.Store(-2)
	timebase.RegisterClock(c)
	return c
}()

// ------------------------------------------------------------------ logging
// (the client's log is kept for an OPTIONAL cross-check only - see observe.go; no
// observation depends on the name or the attributes of a log record)
type LogRec struct {
	Msg   string
	Attrs map[string]slog.Value
}

type chanHandler struct{ ch chan LogRec }

func (h chanHandler) Enabled(context.Context, slog.Level) bool { return true }
func (h chanHandler) Handle(_ context.Context, r slog.Record) error {
	lr := LogRec{Msg: r.Message, Attrs: map[string]slog.Value{}}
	r.Attrs(func(a slog.Attr) bool { lr.Attrs[a.Key] = a.Value.Resolve(); return true })
	select {
	case h.ch <- lr:
	default: // never block the client
	}
	return nil
}
func (h chanHandler) WithAttrs([]slog.Attr) slog.Handler { return h }
func (h chanHandler) WithGroup(string) slog.Handler      { return h }

func groupT64(v slog.Value, key string) ntp.Time64 {
	for _, a := range v.Group() {
		if a.Key == key {
			var t ntp.Time64
			for _, b := range a.Value.Resolve().Group() {
				if b.Key == "Seconds" {
					t.Seconds = uint32(b.Value.Uint64())
				}
				if b.Key == "Fraction" {
					t.Fraction = uint32(b.Value.Uint64())
				}
			}
			return t
		}
	}
	return ntp.Time64{}
}

// ------------------------------------------------------------------ sockets
type tsConn struct {
	c   *net.UDPConn
	oob []byte
}

// with VERIF_FIXED_PORTS the harness sockets use fixed ports (the port-reuse
// scenario runs in a network namespace whose ephemeral range is a single port,
// which must stay free for the client under test)
var nextFixedPort = 41000

func listenTS(ip string) (*tsConn, error) {
	port := 0
	if os.Getenv("VERIF_FIXED_PORTS") != "" {
		nextFixedPort++
		port = nextFixedPort
	}
	c, err := net.ListenUDP("udp", &net.UDPAddr{IP: net.ParseIP(ip), Port: port})
	if err != nil {
		return nil, err
	}
	if err := udp.EnableTimestamping(c, ""); err != nil {
		return nil, fmt.Errorf("timestamping: %w", err)
	}
	return &tsConn{c: c, oob: make([]byte, udp.TimestampLen())}, nil
}

func (t *tsConn) addr() netip.AddrPort { return t.c.LocalAddr().(*net.UDPAddr).AddrPort() }

// read returns payload, kernel rx timestamp and source.
func (t *tsConn) read(deadline time.Duration) ([]byte, time.Time, netip.AddrPort, error) {
	buf := make([]byte, 2048)
	oob := t.oob[:cap(t.oob)]
	t.c.SetReadDeadline(time.Now().Add(deadline))
	n, oobn, _, src, err := t.c.ReadMsgUDPAddrPort(buf, oob)
	if err != nil {
		return nil, time.Time{}, src, err
	}
	ts, err := udp.TimestampFromOOBData(oob[:oobn])
	if err != nil {
		return nil, time.Time{}, src, fmt.Errorf("no kernel rx timestamp: %w", err)
	}
	return buf[:n], ts, src, nil
}

// write sends and returns the kernel tx timestamp.
func (t *tsConn) write(b []byte, dst netip.AddrPort) (time.Time, error) {
	_, err := t.c.WriteToUDPAddrPort(b, dst)
	if err != nil {
		return time.Time{}, err
	}
	// ReadTXTimestamp goes through RawConn.Read, which honours (and fails on) a
	// read deadline left behind by an earlier read of this socket
	t.c.SetReadDeadline(time.Time{})
	ts, _, err := udp.ReadTXTimestamp(t.c)
	for try := 0; err != nil && try < 50; try++ {
		// the error queue is polled for 1 ms only; under load the timestamp may be late
		time.Sleep(200 * time.Microsecond)
		ts, _, err = udp.ReadTXTimestamp(t.c)
	}
	if err != nil {
		return time.Time{}, fmt.Errorf("no kernel tx timestamp: %w", err)
	}
	return ts, nil
}

// ------------------------------------------------------------------ harness
type Arrival struct {
	B   []byte
	At  time.Time // kernel rx timestamp at the network endpoint
	Src netip.AddrPort
}

type Handling struct {
	H       int
	Ex      int
	Theta   time.Duration
	Rxt     time.Time // server receive time (server clock)
	Txt0    time.Time // software transmit time returned by handleRequest
	Ktx     time.Time // kernel transmit time (server clock); zero if not sent
	Rxt64   ntp.Time64
	Txt064  ntp.Time64
	Ktx64   ntp.Time64
	Resp    []byte // framed for the client
	NTP     []byte // bare NTP response
	Meta    *Meta
	Dst     netip.AddrPort
	RespPkt ntp.Packet
	Sent    bool
}

type Net struct {
	N, D, S, F, K *tsConn // N: the address the client queries (requests arrive here); D: delivers datagrams to the client (same IP)
	Arrivals      chan Arrival
	Logs          chan LogRec
	cur           chan MeasureResult // result channel of the call in progress (nil: none); harness goroutine only
	Last          MeasureResult      // result of the last finished call
	root          int64              // goroutine of the call in progress
	started       time.Time          // taken just before the call in progress got its context: its deadline is not before started + Timeout
	rl            atomic.Int64       // goroutine of readLoop
	stash         *Arrival           // a request taken off the wire while a reaction was being watched
	Filter        *RecFilter         // the client's pass-through filter (nil: the client has none)
	T             Transport
	ClientID      string
	hcount        int
	Handlings     map[int]*Handling
	stop          chan struct{}
	wg            sync.WaitGroup
	Timeout       time.Duration
}

type MeasureResult struct {
	Ts  time.Time
	Off time.Duration
	Err error
}

func NewNet() (*Net, error) { return NewNetFor("ip") }

func NewNetFor(kind string) (*Net, error) { return NewNetWith(kind, true) }

// NewNetWith: filter = true gives the client a recording pass-through filter
// (measurements.Filter), so that every accepted exchange hands its four
// timestamps to the harness; false leaves Filter nil as in a default configuration.
func NewNetWith(kind string, filter bool) (*Net, error) {
	n := &Net{Arrivals: make(chan Arrival, 64), Logs: make(chan LogRec, 256),
		Handlings: map[int]*Handling{}, stop: make(chan struct{}), Timeout: 150 * time.Millisecond}
	var err error
	if n.N, err = listenTS("127.0.0.1"); err != nil {
		return nil, err
	}
	if n.D, err = listenTS("127.0.0.1"); err != nil {
		return nil, err
	}
	if n.S, err = listenTS("127.0.0.1"); err != nil {
		return nil, err
	}
	if n.F, err = listenTS("127.0.0.1"); err != nil {
		return nil, err
	}
	if n.K, err = listenTS("127.0.0.1"); err != nil {
		return nil, err
	}
	Clock.serverGID.Store(gid())
	n.ClientID = "client-" + n.N.addr().String()
	if filter {
		n.Filter = &RecFilter{}
	}
	n.T = newTransport(kind, n)
	n.wg.Add(1)
	go n.readLoop()
	return n, nil
}

func (n *Net) readLoop() {
	defer n.wg.Done()
	n.rl.Store(gid())
	for {
		select {
		case <-n.stop:
			return
		default:
		}
		b, at, src, err := n.N.read(50 * time.Millisecond)
		if err != nil {
			continue
		}
		n.Arrivals <- Arrival{B: b, At: at, Src: src}
	}
}

func (n *Net) Close() {
	close(n.stop)
	n.wg.Wait()
	for _, c := range []*tsConn{n.N, n.D, n.S, n.F, n.K} {
		c.c.Close()
	}
}

// StartMeasure runs one measurement call of the client under test in its own
// goroutine. The harness (one goroutine) owns n.cur: a call counts as running
// until its result has been taken with Wait or Poll.
func (n *Net) StartMeasure() {
	ch := make(chan MeasureResult, 1)
	n.cur = ch
	started := make(chan int64, 1)
	defer func() { n.root = <-started }()
	n.started = time.Now()
	go func() {
		started <- gid()
		ctx, cancel := context.WithTimeout(context.Background(), n.Timeout)
		defer cancel()
		var res MeasureResult
		func() {
			// a panic of the client (it has no recover of its own) is an observation
			defer func() {
				if r := recover(); r != nil {
					res.Err = fmt.Errorf("PANIC: %v", r)
					select {
					case n.Logs <- LogRec{Msg: "client panic", Attrs: map[string]slog.Value{"panic": slog.StringValue(fmt.Sprint(r))}}:
					default:
					}
				}
			}()
			res, _ = n.T.Measure(ctx, n)
		}()
		ch <- res
	}()
}

func (n *Net) Calling() bool { return n.cur != nil }

// Poll takes the result of the running call if it has finished.
func (n *Net) Poll() {
	if n.cur == nil {
		return
	}
	select {
	case r := <-n.cur:
		n.cur, n.Last = nil, r
	default:
	}
}

// Wait blocks until the running call has returned (or d has passed).
func (n *Net) Wait(d time.Duration) bool {
	if n.cur == nil {
		return true
	}
	select {
	case r := <-n.cur:
		n.cur, n.Last = nil, r
		return true
	case <-time.After(d):
		return false
	}
}

func (n *Net) SetTheta(d time.Duration) { Clock.theta.Store(int64(d)) }
func (n *Net) Theta() time.Duration     { return time.Duration(Clock.theta.Load()) }

// ServerRecv forwards the request bytes to the server socket, takes the kernel
// receive timestamp there and runs the real handleRequest on them.
func (n *Net) ServerRecv(ex int, req []byte, dst netip.AddrPort) (*Handling, error) {
	if _, err := n.F.c.WriteToUDPAddrPort(req, n.S.addr()); err != nil {
		return nil, err
	}
	b, at, _, err := n.S.read(time.Second)
	if err != nil {
		return nil, err
	}
	var pkt, resp ntp.Packet
	pl, meta, err := n.T.Unwrap(b)
	if err != nil {
		return nil, err
	}
	if err := ntp.DecodePacket(&pkt, pl); err != nil {
		return nil, err
	}
	th := n.Theta()
	rxt := at.Add(th)
	var txt time.Time
	server.VerifHandleRequest(n.ClientID, &pkt, &rxt, &txt, &resp)
	var out []byte
	ntp.EncodePacket(&out, &resp)
	n.hcount++
	h := &Handling{H: n.hcount, Ex: ex, Theta: th, Rxt: rxt, Txt0: txt, Rxt64: ntp.Time64FromTime(rxt),
		Txt064: ntp.Time64FromTime(txt), NTP: out, Resp: n.T.Wrap(out, meta, ""), Meta: meta, Dst: dst, RespPkt: resp}
	n.Handlings[h.H] = h
	return h, nil
}

// ServerTx puts the reply on the wire at the server socket (towards a sink),
// reads its kernel transmit timestamp and reports it (or its loss) to the store.
func (n *Net) ServerTx(h *Handling, lost bool) error {
	ktx, err := n.S.write(h.Resp, n.K.addr())
	if err != nil {
		return err
	}
	n.K.c.SetReadDeadline(time.Now().Add(100 * time.Millisecond))
	var sink [2048]byte
	n.K.c.ReadFromUDPAddrPort(sink[:])
	h.Ktx = ktx.Add(h.Theta)
	h.Ktx64 = ntp.Time64FromTime(h.Ktx)
	t1 := h.Ktx
	if lost {
		t1 = h.Txt0
	}
	server.VerifUpdateTXTimestamp(n.ClientID, h.Rxt, &t1)
	h.Sent = true
	return nil
}

// Deliver hands a datagram to the client's socket from the network endpoint
// (the address the client queried) and returns the kernel tx timestamp.
func (n *Net) Deliver(b []byte, dst netip.AddrPort) (time.Time, error) {
	return n.D.write(b, dst)
}
