SPECIFICATION TSpec
CONSTANTS
  KPn = 1
  KPd = 2
  KIn = 1
  KId = 2
  G = 8
  Thr = 4
  FMax = 20
INVARIANTS MonitorReport
