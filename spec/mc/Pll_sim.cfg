SPECIFICATION SpecSim
CONSTANTS
  U = 1000
  OneMs = 2
  OffMax = 20
  PB = 500000
  SatSecs = 2001
  Advs <- AdvsFull
  Offs <- OffsFull
  Weights <- WeightsFull
  AllowSat = TRUE
  BumpDen = 6
  InitClkEpochs = {0, 1}
  MaxLen = 12
  RawMags <- RawMagsOne
  StepUsesDoubleInv = FALSE
  DurationWraps = FALSE
  Jumps <- JumpsFull
  StepAt = {1, 2, 3, 4}
  MaxInDo = 4
  ReadsNowFirst = FALSE
  StepDen = 20
INVARIANTS Emit
