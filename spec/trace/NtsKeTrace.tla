----------------------------- MODULE NtsKeTrace -----------------------------
(***************************************************************************)
(* Validation of what the real ntske.Fetcher (through FetchData or through *)
(* client.MeasureClockOffsetIP / MeasureClockOffsetSCION) did against      *)
(* scripted and real key-exchange                                          *)
(* peers (harness/c20) against NtsKe.tla.                                  *)
(*                                                                         *)
(* One line per history (operations on ONE fresh Fetcher): "call" (one     *)
(* FetchData call: what the peer saw and did, what the call returned, the  *)
(* Fetcher's data afterwards, where the NTP request went), "late" (after a  *)
(* call whose peer stalled past the deadline of the call's context: the    *)
(* Fetcher's data once the peer has sent the rest of its message and       *)
(* closed, and nothing started by the call runs any more) and "store"      *)
(* (StoreCookie).  Histories are independent and visited as a 16-ary tree  *)
(* so that TLC's workers share them and counterexamples stay short.  The   *)
(* specification's variables are BOUND to the logged projection; the       *)
(* peer's side (sv) is computed from the script the peer really followed.  *)
(*   monitor: the property section of NtsKe on these states (VIOLATION)    *)
(*   strict : every call is the one NtsKe!RunCall computes under the       *)
(*            configured switches (DRIFT only)                             *)
(***************************************************************************)
EXTENDS NtsKe, Json

VARIABLES l,   \* the history being replayed (0: none yet); histories are visited as a 16-ary tree
          p    \* operations of that history consumed so far
tvars == <<vars, l, p>>

\* one history per line: [total |-> operations in the whole file, evs |-> <<operation, ...>>]
Trace == ndJsonDeserialize("trace.ndjson")
N == Len(Trace)

ToData(d) == [c2s |-> d.c2s, s2c |-> d.s2c, server |-> d.server, port |-> d.port,
              algo |-> d.algo, pool |-> d.pool]
ToDest(d) == [sent |-> d.sent, net |-> d.net, server |-> d.server, port |-> d.port,
              hop |-> [server |-> d.hop.server, port |-> d.hop.port]]

\* ghost rule for "one cookie is handed out": the statement does not say which
\* one, so the cookie taken is the one the recorded pool is missing (NtsKe
\* itself takes the oldest); if the recorded pool is not "all but one" the ghost
\* follows NtsKe and PoolIsIssued objects.
DropAt(s, i) == SubSeq(s, 1, i - 1) \o SubSeq(s, i + 1, Len(s))
Consume(g, post) ==
  LET c == {i \in DOMAIN g : SameCookies(DropAt(g, i), post)}
  IN IF c # {} THEN DropAt(g, CHOOSE i \in c : TRUE) ELSE Tail(g)

TInit == Init /\ l = 0 /\ p = 0

\* a fresh Fetcher for another history (all variables have their initial values when p = 0)
Descend ==
  /\ p = 0
  /\ \E j \in 1 .. 16 : l' = 16 * l + j /\ l' <= N
  /\ UNCHANGED <<vars, p>>

\* the next operation of the current history
Step ==
  /\ l > 0 /\ p < Len(Trace[l].evs)
  /\ p' = p + 1 /\ l' = l
  /\ UNCHANGED <<ncalls, ndials, nstore, nstalls, ctx, pend, late>>
  /\ LET e == Trace[l].evs[p + 1] IN
     \/ /\ e.ev = "call"
        /\ LET ex == e.dialed > 0      \* the peer saw a connection during this call
               v  == IF ex THEN Summary(e.served.alpn, e.served.recs, e.served.cut) ELSE sv
           IN /\ data' = ToData(e.post)
              /\ sess' = e.sess
              /\ sv' = v
              /\ ret' = [ok |-> e.ok, exch |-> ex, prevok |-> ret.ok, data |-> ToData(e.ret)]
              /\ dest' = ToDest(e.dest)
              /\ conn' = IF ex THEN (IF e.ok THEN "done" ELSE "failed") ELSE conn
              \* ghosts, by the same rules as in NtsKe
              /\ good' = IF ex THEN e.ok ELSE good
              /\ gpool' = IF ex /\ e.ok
                          THEN (IF v.nck > 0 THEN Consume(Issued(e.sess, v.nck), e.post.pool) ELSE << >>)
                          ELSE IF ~ex /\ e.ok /\ good /\ gpool # << >> THEN Consume(gpool, e.post.pool)
                          ELSE gpool
     \/ /\ e.ev = "store"
        /\ data' = ToData(e.post)
        /\ gpool' = IF good THEN Append(gpool, e.id) ELSE gpool
        /\ UNCHANGED <<conn, sess, sv, ret, dest, good>>
     \* NtsKe!LateRecord ... LateClose: what the peer still had to send has arrived
     \/ /\ e.ev = "late"
        /\ data' = ToData(e.post)
        /\ UNCHANGED <<conn, sess, sv, ret, dest, good, gpool>>

TNext == Descend \/ Step
TSpec == TInit /\ [][TNext]_tvars

Ev == Trace[l].evs[p]

(***************************************************************************)
(* monitor                                                                 *)
(***************************************************************************)
IsCall == p > 0 /\ Ev.ev = "call"
TSuccessOnlyIf == IsCall => SuccessOnlyIf
TKeysAgree     == IsCall => KeysAgree
TPoolIsIssued  == PoolIsIssued
\* (the Data handed to measureClockOffsetIP is not visible from outside)
TPoolReturned  == (IsCall /\ Ev.via = "fetch") => PoolReturned
TDestination   == IsCall => Destination
TNoResidue     == IsCall => NoResidue
\* unrecognised non-critical records are ignored: the same history with these
\* records removed from every message (run on a second Fetcher) gives the same
\* results, call by call
TIgnoresNonCritical ==
  (IsCall /\ Ev.has_un) =>
     Ev.twin = [ok |-> Ev.ok, dialed |-> Ev.dialed, ret |-> Ev.ret, post |-> Ev.post]

(***************************************************************************)
(* strict                                                                  *)
(***************************************************************************)
StrictStep ==
  p' = p + 1 =>
    LET e == Trace[l'].evs[p'] IN
    /\ e.ev = "call" =>
         LET r == RunCall(data, sess, IF e.dialed > 0 THEN e.served ELSE e.planned)
         IN /\ r.exch = (e.dialed > 0)
            /\ r.ok = e.ok
            /\ r.post = data'
            /\ r.sess = sess'
            /\ e.via = "fetch" => r.ret = ret'.data
            /\ (r.ok /\ e.dest.sent) => dest' = Send(r.ret)
    /\ e.ev = "store" => data' = [data EXCEPT !.pool = Append(@, e.id)]
    \* nothing reads the connection of a call that has returned
    /\ e.ev = "late" => data' = data
StrictProp == [][StrictStep]_tvars

\* the whole file must be consumed (a TLC evaluation error or a record that
\* matches no disjunct of Step would otherwise end a behaviour silently)
Consumed == TLCGet("stats").distinct = 1 + N + Trace[1].total
=============================================================================
