------------------------ MODULE NtsPacketAssocTrace -------------------------
(***************************************************************************)
(* Validation of what the real net/nts + net/ntske code did when the       *)
(* schedules generated from NtsPacketAssoc.tla (several associations in    *)
(* one process, overlapping exchanges) were replayed on it (harness/c10    *)
(* TestC10Assoc) against NtsPacketAssoc.tla.                               *)
(*                                                                         *)
(* trace.ndjson: one record per executed step, behaviour after behaviour;  *)
(* starts.ndjson: first record and length of every behaviour.  Behaviours  *)
(* are independent: they are visited as a 16-ary tree (b), the steps of    *)
(* one behaviour in order (k); l is the position of the record in the      *)
(* file.                                                                   *)
(*   monitor (NtsPacketAssocTrace_mon.cfg, TMon): ev is BOUND to the       *)
(*     record - what was true of the packet for THIS client, what the real *)
(*     code answered and took - and NtsPacketAssoc's property section      *)
(*     (OutstandingId, Sound, Complete, CookieBinding, AuthenticOnly,      *)
(*     RejectedInert) is evaluated on it; observed distinctness of the     *)
(*     session keys.                                                       *)
(*   strict (NtsPacketAssocTrace_strict.cfg, TStrict): the specification   *)
(*     takes the same step (Do) from its own state; the step must be       *)
(*     enabled, its judged event must be the recorded one and the state    *)
(*     projection (identifier each client holds / has on the wire, pool,   *)
(*     request shape) must agree.                                          *)
(***************************************************************************)
EXTENDS Integers, Sequences, FiniteSets, TLC, Json

NC == 3
MaxRounds == 8
MaxTries == 8
MaxDraws == 24
SharedIdBuf == FALSE
UidChecked == TRUE
StoreAfterUid == TRUE
ServeEager == FALSE
RecvKinds == {"genuine", "otherid", "foreign", "swapkey", "swapdir"}
VARIABLES s, ev, b, k, l, pev, stuck
INSTANCE NtsPacketAssoc

Trace  == ndJsonDeserialize("trace.ndjson")
Starts == ndJsonDeserialize("starts.ndjson")
NB == Len(Starts)

EvOf(R) == [role |-> R.role, c |-> R.c, kind |-> R.ekind, out |-> R.out, key |-> R.key, dir |-> R.dir, uid |-> R.uid,
            pristine |-> R.pristine, opened |-> R.opened, ckkey |-> R.ck_key, cksc |-> R.ck_sc, tckey |-> R.t_ckey,
            tcsc |-> R.t_csc, stored |-> R.stored, cok |-> R.cok]

TInit == b = 0 /\ k = 0 /\ l = 0 /\ s = S0 /\ ev = NoEv /\ pev = NoEv /\ stuck = FALSE

\* on to another behaviour (from the start of this one)
Jump ==
  /\ k = 0
  /\ \E j \in 1 .. 16 : b' = 16 * b + j /\ b' <= NB
  /\ UNCHANGED <<k, l, s, ev, pev, stuck>>

\* the next step of this behaviour
Advance(strict) ==
  /\ b >= 1 /\ k < Starts[b].n
  /\ k' = k + 1 /\ l' = Starts[b].s + k /\ b' = b
  /\ LET R == Trace[l']
         a == Act(R.act, R.kind, R.arg)
     IN /\ ev' = EvOf(R)
        /\ IF strict /\ ~stuck /\ a \in Acts(s, R.c)
           THEN LET r == Do(s, R.c, a) IN s' = r.s /\ pev' = r.ev /\ stuck' = FALSE
           ELSE stuck' = strict /\ UNCHANGED <<s, pev>>

TMon    == TInit /\ [][Jump \/ Advance(FALSE)]_<<s, ev, b, k, l, pev, stuck>>
TStrict == TInit /\ [][Jump \/ Advance(TRUE)]_<<s, ev, b, k, l, pev, stuck>>

R == Trace[l]

\* ------------------------------------------------------------- monitor
\* OutstandingId, Sound, Complete, CookieBinding, AuthenticOnly, RejectedInert: NtsPacketAssoc's formulas over ev.
RDirectionsDistinct == l > 0 => R.dd

\* -------------------------------------------------------------- strict
SEnabled == ~stuck
SEvent ==
  (l > 0 /\ ~stuck) =>
     /\ pev.role = R.role /\ pev.kind = R.ekind /\ pev.out = R.out /\ pev.stored = R.stored
     /\ pev.key = R.key /\ pev.dir = R.dir /\ pev.uid = R.uid /\ pev.pristine = R.pristine
     /\ pev.opened = R.opened
     /\ (R.opened => (pev.ckkey = R.ck_key /\ pev.cksc = R.ck_sc))
SState ==
  (l > 0 /\ ~stuck) =>
     \A c \in Clients : /\ HeldId(s, c) = R.held[c]
                        /\ s.wuid[c] = R.wuid[c]
                        /\ s.pool[c] = R.pool[c]
                        /\ s.nf[c] = R.nf[c]
=============================================================================
