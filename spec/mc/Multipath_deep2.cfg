SPECIFICATION Spec
CONSTANTS
  MaxClients = 3
  MaxPaths = 5
  ThetaVecs <- Theta1
  AllCompletions = FALSE
  FW = 8
  MaxRounds = 1
  MaxRefresh = 1
  PrivateSlice = TRUE
  KeepHist = FALSE
  CheckRand = FALSE
  RandWMax = 4
  CheckUnif = FALSE
  UnifNMax = 0
INVARIANTS TypeOK TableIntact Distinct StickyKept ElseResetWithFilter Participants LaunchedAreParticipants OneValuePerParticipant NoPathError ResetExactlyNonSticky
