------------------------------ MODULE WireHist ------------------------------
(***************************************************************************)
(* Histories of codec calls in one process (property C14, clause (f) of    *)
(* Wire.tla's property section): the results of earlier calls stay valid   *)
(* while the codecs are called again.                                       *)
(*                                                                         *)
(* The environment builds a plan of 2..HMaxCalls calls: call i is made by   *)
(* thread th (goroutine), encodes ("enc") or decodes ("dec") value number v *)
(* with codec cd.  A decoder's input is an encoding written by the          *)
(* environment (src = 0: a datagram from the network) or the result of an   *)
(* earlier encode call of the plan that the caller still holds (src = j).   *)
(* Every call of a plan has a value of its own (v = i), except a decode of  *)
(* an earlier result, which has that call's value.  The calls are numbered  *)
(* in the order in which they begin and the first call is thread 1's        *)
(* (numbers and thread names are interchangeable).                          *)
(*                                                                         *)
(* A call is two steps, so that calls of different threads overlap:         *)
(*   Begin(t)  the call obtains the storage for its result from the         *)
(*             allocator.  Go's allocator (make, new, a local variable)     *)
(*             hands out storage that nothing else refers to; a recycling   *)
(*             allocator (a sync.Pool / free list / static buffer behind    *)
(*             the codec, one per site = (codec, direction)) may hand out   *)
(*             storage that it has handed out before                        *)
(*   End(t)    the call writes its result and returns; with a recycling     *)
(*             allocator the storage goes back to the pool now ("defer      *)
(*             pool.Put(b)") although the caller holds the result           *)
(* Switch Recycle = FALSE is the code (default in every cfg): no codec      *)
(* keeps storage behind the caller's back.  Recycle = TRUE is kept in       *)
(* WireHist_recycle*.cfg as a self-test: the property section must reject   *)
(* it.                                                                      *)
(* Simplification: a decoded value is modelled as a copy.  The code's       *)
(* cookie decoders return slices of their INPUT (allowed by the property;   *)
(* the environment never writes to an input it has passed).                 *)
(***************************************************************************)
EXTENDS Wire

CONSTANTS HCodecs,     \* subset of HCodecsAll
          HMaxCalls,   \* 2 .. 3
          HThreads,    \* 1 .. 2
          Recycle      \* BOOLEAN switch

ASSUME HCodecs \subseteq HCodecsAll /\ HMaxCalls \in 2 .. 3 /\ HThreads \in 1 .. 2 /\ Recycle \in BOOLEAN

VARIABLES phase,    \* "build" | "run" | "done"
          plan,     \* the calls [th, op, cd, v, src]
          heap,     \* storage cells [site, val]
          pool,     \* cells the recycling allocator may hand out again
          beg, fin, \* calls that have begun / returned
          res,      \* call -> the cell of its result
          ret,      \* call -> its result as it was when the call returned
          sched     \* history: the schedule [e |-> "B" | "E", i |-> call]
hvars == <<c, phase, plan, heap, pool, beg, fin, res, ret, sched>>

\* --- the values of a plan: three different protocol values per codec
HB(n, tag) == [j \in 1 .. n |-> ((tag * 37 + j * 11) % 251) + 1]
HSsds(m, i) == HasCond(m) /\ i % 2 = 0
HLayVal(m, i) ==
  [f \in FieldNames(m) |->
     LET r == RowOf(m, f)
         x == 17 * i
     IN IF ~ActiveRow(r, HSsds(m, i)) THEN Zeros(r.w)
        ELSE IF HasCond(m) /\ f = "FlagField" THEN <<x, x, x, (x - (x % 2)) + (IF HSsds(m, i) THEN 1 ELSE 0)>>
        ELSE Fill(r.w, x)]
HNtsVal(i) == [uid |-> HB(32, i), ck |-> <<HB(8, 10 + i)>>,
               ph |-> IF i = 2 THEN <<Zeros(8)>> ELSE << >>,
               pt |-> IF i = 3 THEN <<HB(24, 20 + i)>> ELSE << >>]
HCkVal(i) == [n |-> 257 * i, x |-> HB(4, 3 * i), y |-> HB(4 + 4 * (i % 2), 3 * i + 1)]
HKeVal(i) == CASE i = 1 -> <<KeRec("ae", TRUE, 0, <<15>>), KeRec("ck", FALSE, 0, <<17, 34, 51>>), KeEom>>
               [] i = 2 -> <<KeRec("ck", FALSE, 0, <<0, 5>>), KeRec("pt", FALSE, 291, << >>), KeEom>>
               [] OTHER -> <<KeRec("sv", FALSE, 0, <<49, 46>>), KeRec("ck", FALSE, 0, <<128, 9, 0, 1, 77>>), KeEom>>
HValOf(cd, i) == CASE cd \in Msgs -> HLayVal(cd, i) [] cd = "nts" -> HNtsVal(i)
                   [] cd \in {"sck", "eck", "crypt"} -> HCkVal(i) [] cd = "ke" -> HKeVal(i)
\* (tables as constant functions: TLC evaluates them once)
HValT == [cd \in HCodecsAll |-> [i \in 1 .. 3 |-> HValOf(cd, i)]]
HEncT == [cd \in HCodecsAll |-> [i \in 1 .. 3 |-> HEncode(cd, HValT[cd][i])]]

HInit ==
  /\ c = [k |-> "init"]
  /\ phase = "build" /\ plan = << >> /\ heap = << >> /\ pool = {}
  /\ beg = {} /\ fin = {} /\ res = << >> /\ ret = << >> /\ sched = << >>

EncsBefore(cd) == {j \in DOMAIN plan : plan[j].op = "enc" /\ plan[j].cd = cd}
\* thread names are interchangeable: the first call is thread 1's
AddCall ==
  /\ phase = "build" /\ Len(plan) < HMaxCalls
  /\ \E th \in 1 .. HThreads, op \in {"enc", "dec"}, cd \in HCodecs :
       /\ th = 1 \/ \E j \in DOMAIN plan : plan[j].th = 1
       /\ \E src \in {0} \cup (IF op = "dec" THEN EncsBefore(cd) ELSE {}) :
            plan' = Append(plan, [th |-> th, op |-> op, cd |-> cd, src |-> src,
                                  v |-> IF src = 0 THEN Len(plan) + 1 ELSE plan[src].v])
  /\ UNCHANGED <<c, phase, heap, pool, beg, fin, res, ret, sched>>
Start ==
  /\ phase = "build" /\ Len(plan) >= 2
  /\ phase' = "run"
  /\ res' = [i \in DOMAIN plan |-> 0]
  /\ ret' = [i \in DOMAIN plan |-> << >>]
  /\ UNCHANGED <<c, plan, heap, pool, beg, fin, sched>>

Pending(t) == {i \in DOMAIN plan : plan[i].th = t /\ i \notin beg}
Busy(t) == \E i \in beg \ fin : plan[i].th = t
Begin(t) ==
  /\ phase = "run" /\ ~Busy(t) /\ Pending(t) # {}
  /\ LET i == CHOOSE k \in Pending(t) : \A k2 \in Pending(t) : k <= k2
         site == <<plan[i].cd, plan[i].op>>
     IN \* the caller can only pass what it has: a decode of an earlier result starts after that call returned
        /\ plan[i].src = 0 \/ plan[i].src \in fin
        \* the calls are numbered in the order in which they begin
        /\ \A j \in 1 .. (i - 1) : j \in beg
        /\ \/ \* make([]byte, n) / new(T) / a local variable: storage that nothing else refers to
              /\ heap' = Append(heap, [site |-> site, val |-> << >>])
              /\ res' = [res EXCEPT ![i] = Len(heap) + 1]
              /\ pool' = pool
           \/ \* a recycling allocator hands out storage that it has handed out before
              /\ Recycle
              /\ \E cell \in pool :
                    /\ heap[cell].site = site
                    /\ res' = [res EXCEPT ![i] = cell]
                    /\ pool' = pool \ {cell}
                    /\ heap' = heap
        /\ beg' = beg \cup {i}
        /\ sched' = Append(sched, [e |-> "B", i |-> i])
  /\ UNCHANGED <<c, phase, plan, fin, ret>>
End(t) ==
  /\ phase = "run"
  /\ \E i \in beg \ fin :
       /\ plan[i].th = t
       /\ LET p == plan[i]
              input == IF p.src = 0 THEN HEncT[p.cd][p.v] ELSE heap[res[p.src]].val
              out == IF p.op = "enc" THEN HEncT[p.cd][p.v] ELSE HDecode(p.cd, input)
          IN /\ heap' = [heap EXCEPT ![res[i]].val = out]
             /\ ret' = [ret EXCEPT ![i] = out]
       /\ pool' = IF Recycle THEN pool \cup {res[i]} ELSE pool       \* "defer pool.Put(b)"
       /\ fin' = fin \cup {i}
       /\ sched' = Append(sched, [e |-> "E", i |-> i])
       /\ phase' = IF fin' = DOMAIN plan THEN "done" ELSE "run"
  /\ UNCHANGED <<c, plan, beg, res>>

HNext == AddCall \/ Start \/ \E t \in 1 .. HThreads : Begin(t) \/ End(t)
HSpec == HInit /\ [][HNext]_hvars

(***************************************************************************)
(* Property section (C14, clause (f)): at every moment, for the calls that  *)
(* have returned.                                                           *)
(***************************************************************************)
HistNow == [i \in fin |-> [op |-> plan[i].op, cd |-> plan[i].cd, val |-> HValT[plan[i].cd][plan[i].v],
                           ret |-> ret[i], end |-> heap[res[i]].val]]
PHistRoundTrip == HistRoundTrip(HistNow)
PResultsStable == ResultsStable(HistNow)
\* sanity of the model itself
HTypeOK == /\ phase \in {"build", "run", "done"}
           /\ fin \subseteq beg /\ beg \subseteq DOMAIN plan
           /\ \A i \in beg : res[i] \in DOMAIN heap
           /\ (~Recycle) => \A i, j \in beg : i # j => res[i] # res[j]
=============================================================================
