SPECIFICATION Spec
CONSTANTS
  PoolMax = 8
  CookieLen = 124
  MaxPacketLen = 1024
  PlaceholderTypedAsCookie = TRUE
  CapReply = FALSE
  Day = 2
  Ticks <- NoProbes
  Horizon = 0
  MaxEx = 9
  ProbeNs <- NoProbes
  ProbeUids <- UidsOwn
  MaxOld = 0
  Transports <- TrIP
  ScmpTypes <- ScmpNone
  HdrStates <- HdrSync
VIEW view
INVARIANTS ReqFits
