SPECIFICATION TSpec
INVARIANTS STimeval SShift STimestamp STimeFromTs SPpm SDrift SFormula
