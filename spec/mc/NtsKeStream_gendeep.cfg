SPECIFICATION Spec
CONSTANTS
  ShortCookieRead = FALSE
  Alphabet <- AlphaGenDeep
  MaxRecs = 3
  MaxChunks = 4
INVARIANTS Emit
