"""C03 - reported offset within half the round-trip delay of the true offset; four timestamps of one exchange."""
import vlib


def run(ctx):
    q = ctx.quick
    r = ctx.tlc("NtpExchangeMC", "NtpExchange_exh.cfg" if q else "NtpExchange_deep.cfg",
                timeout=300 if q else 2400, workers=8, heap=None if q else "20g")
    ctx.log("TLC exhaustive: %d distinct states" % r["distinct"])
    n = 120 if q else 1500
    g = ctx.tlc("NtpExchangeGen", "NtpExchange_gen.cfg", workers=1, timeout=600, simulate="num=%d" % n, depth=90, tag="gen")
    scheds = ctx.emitted(g["out"])
    # a walk is emitted again every time it continues after completion: keep maximal ones
    keep = []
    for i, s in enumerate(scheds):
        nxt = scheds[i + 1] if i + 1 < len(scheds) else None
        if nxt is not None and len(nxt) > len(s) and nxt[:len(s)] == s:
            continue
        keep.append(s)
    scheds = keep
    if len(scheds) < n // 4:
        raise vlib.Inconclusive("generator produced only %d schedules" % len(scheds))
    cp = ctx.path("scheds.ndjson")
    vlib.write_ndjson(cp, scheds)
    tp, out = ctx.godriver("c03", "TestC03", cases=cp, timeout=1500)
    recs = vlib.read_ndjson(tp)
    acc = [x for x in recs if x["ev"] == "accept"]
    ctx.log("driver: %d schedules, %d records, %d accepted measurements (%d interleaved)" %
            (len(scheds), len(recs), len(acc), sum(1 for x in acc if x["il"])))
    # vacuity is judged on the specification side (what the schedules ask for), so
    # that a property-preserving change of the client is not reported as a failure
    want_ok = sum(1 for s in scheds for m in s if m.get("a") == "crecv" and m.get("res") == "ok")
    if want_ok < 2 * len(scheds) or len(recs) < want_ok:
        raise vlib.Inconclusive("schedules vacuous: %d deliveries predicted ok, %d records" % (want_ok, len(recs)))
    if not any(x["il"] for x in acc):
        ctx.drift.append("the client never evaluated an interleaved response (%d accepts)" % len(acc))
    ok, l, inv, tout = ctx.validate("NtpExchangeTrace", "NtpExchangeTrace_mon.cfg", tp)
    nval = len(scheds)
    if not ok:
        bad = recs[l - 1] if l else None
        beh = [x for x in recs if bad and x["beh"] == bad["beh"]]
        ctx.violation("C03 %s %s" % (inv, "interleaved" if bad and bad["il"] else "basic"),
                      "accepted measurement violates %s: %s" % (inv, bad),
                      {"record": bad, "behaviour_records": beh, "schedule": scheds[bad["beh"]] if bad else None})
        nval = 0
    else:
        ok, l, inv, tout = ctx.validate("NtpExchangeTrace", "NtpExchangeTrace_strict.cfg", tp)
        if not ok:
            ctx.drift.append("client reaction differs from NtpExchange.tla: %s" % (recs[l - 1] if l else "?"))
    ctx.cov.update(traces_validated_against_impl=nval, evaluations=len(recs),
                   distinct_nontrivial=len({(x["il"], x["t0ex"], x["t1h"], x["t2r"], x["ex"]) for x in acc}),
                   accepted=len(acc), accepted_interleaved=sum(1 for x in acc if x["il"]),
                   outcomes={k: sum(1 for x in recs if x.get("got") == k) for k in ("ok", "skip", "error", "timeout", "ignored")},
                   rule="TLC -simulate walks of NtpExchangeGen (6 attempts, loss/duplication/reordering of requests and "
                        "responses, lost server tx timestamps, server clock steps of +-1 s, idle > 3 s) executed by the "
                        "harness network against the real IPClient and the real server handler on loopback",
                   samples=acc[:3] + [x for x in acc if x["il"]][:2])
    ctx.assumptions += ["IP and SCION clients alternate per schedule (SCION: same-AS empty path, no SPAO - see C13)",
                        "a datagram reaches only the socket it was addressed to (no ephemeral-port reuse)",
                        "loopback kernel software timestamps; identification windows of 4 ms around harness kernel timestamps"]
