SPECIFICATION FairSpec
CONSTANTS
  MaxClocks = 2
  Rounds = 3
  DVals = {1, 3, 5}
  Overlap = FALSE
  Hist = FALSE
  Fault = "none"
INVARIANTS TypeOK BusyIsEnabled OutcomeIsOfForm ByDeadline ExactlyOncePrefix InTimeCounted NoStuckLeak SecondCallRefused CounterRestored
PROPERTIES NoLeak
