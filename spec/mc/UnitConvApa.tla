---------------------------- MODULE UnitConvApa ----------------------------
(***************************************************************************)
(* Apalache lemmas at the REAL constants (TLC's integers are 32 bit): the  *)
(* operators of UnitConv.tla that the 64-bit clauses of C18 rest on, over  *)
(* unbounded integers with int64 range guards.  One-state specification,   *)
(* checked with  apalache-mc check --length=0 --inv=<lemma>.               *)
(* Specification level only: never fed with recorded samples.  (The digit  *)
(* identity of the 48-bit seconds was tried too: Z3 does not settle it in  *)
(* 120 s, so it stays with TLC's exhaustive 3 x 4-bit run and the driver.) *)
(***************************************************************************)
EXTENDS Integers

VARIABLES
  \* @type: Int;
  n,
  \* @type: Int;
  d,
  \* @type: Int;
  th,
  \* @type: Int;
  c1,
  \* @type: Int;
  c3

MinInt == -9223372036854775808
MaxInt == 9223372036854775807
M == 18446744073709551616
H == 9223372036854775808
NsPerSec == 1000000000
SubUnits == 65536

InWord(z) == MinInt <= z /\ z <= MaxInt
Wrap(z) == ((z + H) % M) - H
TDiv(a, b) == IF a >= 0 THEN a \div b ELSE -((-a) \div b)
TRem(a, b) == a - b * TDiv(a, b)
AShr(a, b) == IF a >= 0 THEN a \div b ELSE -(((-a) + (b - 1)) \div b)
Sat(z) == IF z > MaxInt THEN MaxInt ELSE IF z < MinInt THEN MinInt ELSE z

\* unixutil.TimevalFromNsec (as in UnitConv.tla)
Sec0 == TDiv(n, NsPerSec)
Rem0 == TRem(n, NsPerSec)
TvSec  == IF Rem0 < 0 THEN Wrap(Sec0 - 1) ELSE Sec0
TvUsec == IF Rem0 < 0 THEN Wrap(Rem0 + NsPerSec) ELSE Rem0

\* csptp formulas (as in UnitConv.tla)
X10 == d + th + c1
X32 == d - th + c3
MeanPathDelay == TDiv(Wrap(Wrap(Sat(X10) - c1) + Wrap(Sat(X32) - c3)), 2)
ClockOffset   == TDiv(Wrap(Wrap(Sat(X10) - c1) - Wrap(Sat(X32) - c3)), 2)
NoOverflow ==
  /\ InWord(X10) /\ InWord(X32)
  /\ InWord(d + th) /\ InWord(d - th) /\ InWord(2 * d) /\ InWord(2 * th)
  /\ InWord(d) /\ InWord(th) /\ InWord(c1) /\ InWord(c3)

Init == n \in Int /\ d \in Int /\ th \in Int /\ c1 \in Int /\ c3 \in Int
Next == UNCHANGED <<n, d, th, c1, c3>>

\* every int64 nanosecond count, MinInt64 included
NormalisedAll == InWord(n) =>
  /\ 0 <= TvUsec /\ TvUsec < NsPerSec
  /\ TvSec * NsPerSec + TvUsec = n
  /\ InWord(Sec0 - 1) /\ InWord(Rem0 + NsPerSec)
\* every 64-bit correction field
ShiftAll == InWord(n) =>
  LET q == AShr(n, SubUnits) IN 0 <= n - q * SubUnits /\ n - q * SubUnits < SubUnits
\* every non-overflowing (d, th, c1, c3)
FormulaAll == NoOverflow => (ClockOffset = th /\ MeanPathDelay = d)
=============================================================================
