package react

import (
	"net"
	"testing"
	"time"
)

// self-test of the primitives on a socket and goroutines of the test itself
func TestReact(t *testing.T) {
	c, err := net.ListenUDP("udp", &net.UDPAddr{IP: net.ParseIP("127.0.0.1")})
	if err != nil {
		t.Fatal(err)
	}
	ap := c.LocalAddr().(*net.UDPAddr).AddrPort()
	s, _ := net.ListenUDP("udp", &net.UDPAddr{IP: net.ParseIP("127.0.0.1")})
	defer s.Close()
	st, err := UDP(ap)
	if err != nil || !st[0].Open || st[0].RxQ != 0 || st[0].Inode == 0 {
		t.Fatalf("fresh socket: %+v %v", st, err)
	}
	gid := make(chan int64, 1)
	got := make(chan int, 2)
	go func() {
		gid <- GoID()
		buf := make([]byte, 100)
		for i := 0; i < 2; i++ {
			n, _, _ := c.ReadFromUDP(buf)
			got <- n
		}
	}()
	g := <-gid
	for i := 0; ; i++ {
		if p, present := Goroutines().Parked(g); p && present {
			break
		}
		if i > 1000 {
			t.Fatal("reader never parked")
		}
		time.Sleep(time.Millisecond)
	}
	s.WriteToUDPAddrPort(make([]byte, 48), ap)
	<-got
	for i := 0; ; i++ {
		st, _ = UDP(ap)
		p, _ := Goroutines().Parked(g)
		if st[0].Open && st[0].RxQ == 0 && p {
			break
		}
		if i > 1000 {
			t.Fatalf("not quiescent after the read: %+v parked=%v", st, p)
		}
		time.Sleep(time.Millisecond)
	}
	c.Close()
	<-got
	st, _ = UDP(ap)
	if st[0].Open {
		t.Fatalf("closed socket still listed: %+v", st)
	}
	for i := 0; ; i++ {
		if _, present := Goroutines().Parked(g); !present {
			break
		}
		if i > 1000 {
			t.Fatal("reader goroutine still there")
		}
		time.Sleep(time.Millisecond)
	}
}
