----------------------------- MODULE KeyProvider -----------------------------
(***************************************************************************)
(* The NTS server key provider of net/ntske/provider.go                    *)
(*   Provider{mu, keys, currentID, generatedAt}, NewProvider, Current,     *)
(*   Get, generateNext, Key.IsValidAt; keyValidity = 72 h,                 *)
(*   keyRenewalInterval = 24 h.                                            *)
(* Time is counted in model units since NewProvider(); Day is the number   *)
(* of units in 24 h (4 = 6-hour units, 24 = hours, 86400 = seconds for     *)
(* recorded traces).  Every call runs under Provider.mu, so one action per *)
(* call; several callers at one instant are several actions without an     *)
(* Advance in between, in any order.                                       *)
(* Used by C12; KeyId / key validity are shared with NtsCookies (C11).     *)
(*                                                                         *)
(* The cookie as the carrier of the identifier (net/ntske/cookies.go,      *)
(* core/server): a cookie sealed under the key handed out by Current()     *)
(* carries uint16(key.ID) (EncryptWithNonce); the listeners open it with   *)
(* provider.Get(int(cookie.ID)) and Decrypt(key.Value).  The environment   *)
(* holds the cookies (`cookies`) and presents them again (Open).           *)
(* The randomness source (crypto/rand.Reader) is part of the environment:  *)
(* `draw` is the class of the leading bytes of what this provider instance *)
(* reads from it.  Nothing in provider.go depends on those bytes except    *)
(* the key values, which stay distinct.                                    *)
(***************************************************************************)
EXTENDS Integers, FiniteSets, TLC

CONSTANTS Day,       \* model units per 24 h
          Gaps,      \* durations (units, > 0) by which the clock may advance in one step
          Horizon    \* the clock is not advanced beyond this instant

V == 3 * Day         \* keyValidity        = time.Hour * 24 * 3
R == Day             \* keyRenewalInterval = time.Hour * 24

VARIABLES
  now,          \* time.Now() - start
  keys,         \* Provider.keys: id |-> [nb, na, val]  (Validity.NotBefore/NotAfter, Value)
  currentID,    \* Provider.currentID
  generatedAt,  \* Provider.generatedAt
  ret,          \* what the last call returned (NoRet after NewProvider / a clock step)
  issued,       \* history: id |-> [t, nb, na, val] of the latest Current() that handed out id
  seen,         \* history: every key ever returned, as [id, nb, na, val]
  cookies,      \* environment: carried id |-> [t, nb, na, val] of the latest cookie issued carrying it
  draw          \* environment: class of the leading bytes this instance reads from rand.Reader

impl == <<now, keys, currentID, generatedAt>>
vars == <<now, keys, currentID, generatedAt, ret, issued, seen, cookies, draw>>

NoRet == [op |-> "none", arg |-> 0, t |-> 0, ok |-> FALSE, id |-> 0, nb |-> 0, na |-> 0, val |-> 0, cid |-> 0]

\* leading bytes of a read from rand.Reader: 00 00 .., ff ff .., ff fe .., or the real source
Draws == {"zero", "ones", "fffe", "real"}

\* the identifier as the cookie carries it: EncryptWithNonce stores uint16(keyid) ...
IdSpace == 65536
CookieId(id) == id % IdSpace
\* ... and as the listeners present it to the provider: Get(int(encryptedCookie.ID))
LookupId(cid) == cid

\* Key.IsValidAt: !(t.Before(NotBefore) || t.After(NotAfter)) - inclusive at both ends
IsValidAt(k, t) == ~(t < k.nb \/ t > k.na)

\* p.keys[id] of a Go map: the zero Key (zero time.Time validity) when absent,
\* which is not valid at any instant of the model (all instants are after year 1)
Present(id) == id \in DOMAIN keys
ValidNow(id) == Present(id) /\ IsValidAt(keys[id], now)

\* generateNext(): delete the keys that are not valid at tNow, then create
\* key currentID+1 valid during [tNow, tNow + keyValidity].  Value is 32 fresh
\* random bytes, modelled by a token that is fresh per generation.
KeptAt(t) == {i \in DOMAIN keys : IsValidAt(keys[i], t)}
NewKey(t, id) == [nb |-> t, na |-> t + V, val |-> id]
AfterGenerate(t) ==
  [i \in KeptAt(t) \cup {currentID + 1} |->
     IF i = currentID + 1 THEN NewKey(t, i) ELSE keys[i]]

\* the condition in Current():
\*   !key.IsValidAt(tNow) || p.generatedAt.Add(keyRenewalInterval).Before(tNow)
MustRenew == ~ValidNow(currentID) \/ generatedAt + R < now

RetOf(op, arg, ok, id, k) ==
  [op |-> op, arg |-> arg, t |-> now, ok |-> ok,
   id |-> IF ok THEN id ELSE 0, nb |-> IF ok THEN k.nb ELSE 0,
   na |-> IF ok THEN k.na ELSE 0, val |-> IF ok THEN k.val ELSE 0,
   \* cur: the identifier carried by a cookie sealed under the returned key; open: the one presented
   cid |-> IF op = "cur" /\ ok THEN CookieId(id) ELSE IF op = "open" THEN arg ELSE 0]

\* history bookkeeping (not part of the implementation state)
KeyOf(r) == [id |-> r.id, nb |-> r.nb, na |-> r.na, val |-> r.val]
SeenAfter(s, r) == IF r.ok THEN s \cup {KeyOf(r)} ELSE s
IssuedAfter(f, r) ==
  IF r.op = "cur"
  THEN [i \in DOMAIN f \cup {r.id} |->
          IF i = r.id THEN [t |-> r.t, nb |-> r.nb, na |-> r.na, val |-> r.val] ELSE f[i]]
  ELSE f
\* the servers seal every new cookie under what Current() has just returned
CookiesAfter(c, r) ==
  IF r.op = "cur" /\ r.ok
  THEN [i \in DOMAIN c \cup {r.cid} |->
          IF i = r.cid THEN [t |-> r.t, nb |-> r.nb, na |-> r.na, val |-> r.val] ELSE c[i]]
  ELSE c

(***************************************************************************)
(* Actions                                                                 *)
(***************************************************************************)
\* NewProvider(): empty map, generateNext() at the starting instant
Init ==
  /\ now = 0
  /\ currentID = 1
  /\ generatedAt = 0
  /\ keys = [i \in {1} |-> NewKey(0, 1)]
  /\ ret = NoRet
  /\ issued = << >>
  /\ seen = {}
  /\ cookies = << >>
  /\ draw \in Draws

\* the (virtual) clock moves; nothing else happens
Advance(d) ==
  /\ d > 0
  /\ now + d <= Horizon
  /\ now' = now + d
  /\ ret' = NoRet
  /\ UNCHANGED <<keys, currentID, generatedAt, issued, seen, cookies, draw>>

\* Provider.Current()
Current ==
  /\ IF MustRenew
     THEN /\ keys' = AfterGenerate(now)
          /\ currentID' = currentID + 1
          /\ generatedAt' = now
     ELSE UNCHANGED <<keys, currentID, generatedAt>>
  /\ ret' = RetOf("cur", 0, TRUE, currentID', keys'[currentID'])
  /\ issued' = IssuedAfter(issued, ret')
  /\ seen' = SeenAfter(seen, ret')
  /\ cookies' = CookiesAfter(cookies, ret')
  /\ UNCHANGED <<now, draw>>

\* Provider.Get(id): no purge, no renewal
Get(id) ==
  /\ ret' = IF ValidNow(id) THEN RetOf("get", id, TRUE, id, keys[id])
            ELSE RetOf("get", id, FALSE, 0, NoRet)
  /\ issued' = IssuedAfter(issued, ret')
  /\ seen' = SeenAfter(seen, ret')
  /\ UNCHANGED <<now, keys, currentID, generatedAt, cookies, draw>>

\* a listener receives the cookie carrying c (the latest one issued with it):
\* Decode, provider.Get(int(cookie.ID)), Decrypt with the key found - which
\* succeeds only under the key value the cookie was sealed with
Open(c) ==
  /\ c \in DOMAIN cookies
  /\ LET k == LookupId(c) IN
       ret' = IF ValidNow(k) /\ keys[k].val = cookies[c].val
              THEN RetOf("open", c, TRUE, k, keys[k])
              ELSE RetOf("open", c, FALSE, 0, NoRet)
  /\ seen' = SeenAfter(seen, ret')
  /\ UNCHANGED <<now, keys, currentID, generatedAt, issued, cookies, draw>>

\* identifiers a caller may present: everything ever generated, one that was
\* never generated (0) and the one that will be generated next
ProbeIds == 0 .. (currentID + 1)

Next ==
  \/ \E d \in Gaps : Advance(d)
  \/ Current
  \/ \E id \in ProbeIds : Get(id)
  \/ \E c \in DOMAIN cookies : Open(c)

Spec == Init /\ [][Next]_vars

(***************************************************************************)
(* Implementation invariants (about the modelled state; checked by TLC,    *)
(* used by strict trace validation only)                                   *)
(***************************************************************************)
TypeOK ==
  /\ now \in 0 .. Horizon
  /\ currentID \in Nat /\ generatedAt \in 0 .. now
  /\ DOMAIN keys \subseteq 1 .. currentID
  /\ \A i \in DOMAIN keys : keys[i].na = keys[i].nb + V /\ keys[i].nb <= now
\* (purging is lazy: an expired key may linger in the map until the next
\* renewal; it is never returned because Get re-checks the validity)
CurrentPresent == Present(currentID) /\ keys[currentID].nb = generatedAt
\* identifiers are handed out in strictly increasing order (stronger than the
\* property's "never repeat"; the monitor only uses IdsUnique below)
\* the carrier is not exhausted within the horizon (assumption of the cookie
\* clause: fewer than 2^16 key generations; identifiers start at 1)
CarrierFits == currentID < IdSpace /\ \A c \in DOMAIN cookies : c \in 1 .. currentID
IdsIncreasing == [][currentID' >= currentID /\
                    \A i \in DOMAIN keys' \ DOMAIN keys : i > currentID]_vars

(***************************************************************************)
(* Property section (C12).  Only what callers observe: the values returned *)
(* by Current/Get, the instants of the calls, and their history.           *)
(***************************************************************************)
\* the key handed out for sealing new cookies is within its validity period ...
CurrentValid == ret.op = "cur" => (ret.ok /\ ret.nb <= ret.t /\ ret.t <= ret.na)
\* ... and was generated no more than the renewal interval (24 h) before
CurrentFresh == ret.op = "cur" => (0 <= ret.t - ret.nb /\ ret.t - ret.nb <= Day)
\* a key looked up by identifier is returned only while it is within its
\* validity period (3 days), and it is the key with that identifier
GetOnlyValid == (ret.op = "get" /\ ret.ok) =>
                  /\ ret.id = ret.arg
                  /\ ret.nb <= ret.t /\ ret.t <= ret.na
                  /\ ret.t <= ret.nb + 3 * Day
\* key identifiers never repeat: one identifier, one key
IdsUnique == \A k1, k2 \in seen : k1.id = k2.id => k1 = k2
\* consequently a cookie sealed with the key handed out at instant t remains
\* usable (Get answers, with that key) for at least two days after t, and never
\* beyond three days after the key was generated
CookieLifetimeFor(r, f) ==
  (r.op = "get" /\ r.arg \in DOMAIN f) =>
    LET i == f[r.arg] IN
      /\ (i.t <= r.t /\ r.t <= i.t + 2 * Day) =>
            (r.ok /\ r.id = r.arg /\ r.nb = i.nb /\ r.na = i.na /\ r.val = i.val)
      /\ r.t > i.nb + 3 * Day => ~r.ok
CookieLifetime == CookieLifetimeFor(ret, issued)
\* ... judged on the cookie as carried: the cookie issued at instant i.t under
\* the key handed out then opens (the listener's look-up answers, with the key
\* it was sealed under) throughout [i.t, i.t + 2 days], and never later than
\* three days after that key was generated
CookieUsableFor(r, c) ==
  (r.op = "open" /\ r.arg \in DOMAIN c) =>
    LET i == c[r.arg] IN
      /\ (i.t <= r.t /\ r.t <= i.t + 2 * Day) =>
            (r.ok /\ r.nb = i.nb /\ r.na = i.na /\ r.val = i.val)
      /\ r.t > i.nb + 3 * Day => ~r.ok
CookieUsable == CookieUsableFor(ret, cookies)

\* The key-exchange server and the listeners seal every new cookie with the key
\* "handed out for sealing new cookies" at that instant.  Seen from outside (a
\* cookie names its key): at the instant t a cookie is issued, the key
\* k = [nb, na] it names is one Current() may return at t - within its validity
\* period and generated no more than the renewal interval before t ...
SealedWithCurrent(t, k) == k.nb <= t /\ t <= k.na /\ t - k.nb <= Day
\* ... consequently the cookie remains usable for at least two days after it was
\* issued and never beyond three days after its key was generated
SealedLifetime(t, k) == k.na - t >= 2 * Day /\ k.na - k.nb <= 3 * Day
\* (in this module: a cookie sealed with what Current() has just returned)
SealedByCurrent == ret.op = "cur" =>
   /\ SealedWithCurrent(ret.t, [nb |-> ret.nb, na |-> ret.na])
   /\ SealedLifetime(ret.t, [nb |-> ret.nb, na |-> ret.na])
=============================================================================
