SPECIFICATION Spec
CONSTANTS
  MaxNf = 2
  Roles <- RolesAll
  PlaceholderTypedAsCookie = FALSE
  UidChecked = TRUE
  AdWhole = TRUE
  Hardened = TRUE
  StopAtAuth = FALSE
  CtLenExact = TRUE
  StoreAfterUid = TRUE
  LenChoices <- LenChoicesGen
  TruncMax = 2
INVARIANTS Sound
