SPECIFICATION TSpec
INVARIANTS Sound Complete CookieBinding RDirectionsDistinct
