SPECIFICATION TStrict
INVARIANTS SEnabled SEvent SState
