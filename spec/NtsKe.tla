------------------------------- MODULE NtsKe -------------------------------
(***************************************************************************)
(* The client side of the NTS key exchange (RFC 8915 section 4) as         *)
(* implemented in                                                          *)
(*   net/ntske/fetcher.go     Fetcher.FetchData, exchangeKeys, StoreCookie *)
(*   net/ntske/ntske_ip.go    dialTLS (ALPN check), exchangeDataTLS        *)
(*   net/ntske/ntske_scion.go dialQUIC, exchangeDataQUIC                   *)
(*   net/ntske/ntske.go       ReadData (record loop), ExportKeys           *)
(*   core/client/client_ip.go    destination of the NTP request that       *)
(*   core/client/client_scion.go follows (see "Where the request goes")    *)
(* against an arbitrary key-exchange peer (property C20).                  *)
(*                                                                         *)
(* The client is sequential; the environment is the peer, which chooses an *)
(* ALPN answer, sends records one after the other and may close the        *)
(* connection at a record boundary, inside a record header or inside a     *)
(* record body - and TIME: every FetchData call carries the caller's       *)
(* context, whose deadline may pass while the exchange is reading because  *)
(* the peer STALLS (at a record boundary, inside a header, inside a body)  *)
(* for longer than that deadline and then CONTINUES.  One action per       *)
(* interaction with the peer (Dial, SendRequest, ReadRecord, ReadCut,      *)
(* PeerClose), per local decision of the code (CheckAlpn, Export, Finish,  *)
(* FetchCached, StoreCookie), one for the deadline (StallPastDeadline) and *)
(* two for what the peer does on the connection of a call that has already *)
(* returned (LateRecord, LateClose).                                       *)
(*                                                                         *)
(* Symbolic values.  TLS session number s (1, 2, ...) stands for the       *)
(* session secret; the RFC 8915 exporter values of that session are        *)
(* C2S(s) = 2s and S2C(s) = 2s+1 on BOTH sides (the scripted peer of the   *)
(* binding exports them independently from its end of the connection).     *)
(* The k-th cookie record of session s carries cookie 10s+k; a cookie body *)
(* of which only a part arrived is -(10s+k); cookies delivered later by    *)
(* NTP responses (StoreCookie) are 901, 902, ...  Servers: "host" (the     *)
(* address the key exchange was dialled at), "A", "B"; ports: the standard *)
(* NTP port, 4001, 4002.                                                   *)
(*                                                                         *)
(* Switches (default = the repaired behaviour; the other value is kept as  *)
(* a specification self-test and for strict-mode matching of older code): *)
(*   ResidueAfterFailure  FALSE: FetchData clears Fetcher.data when        *)
(*                               exchangeKeys fails (repo commit 9a6202f)  *)
(*                        TRUE : an error return leaves Fetcher.data as it *)
(*                               is at that moment (DESIGN.md 5, finding e)*)
(*   ShortCookieRead      FALSE: cookie bodies are read completely         *)
(*                               (repo commit b190383)                     *)
(*                        TRUE : one reader.Read, so a body cut short by   *)
(*                               the end of the stream is still appended   *)
(*                               (finding d, property C14)                 *)
(*   DialResetsData       TRUE : the dial result (key-exchange host,       *)
(*                               standard NTP port) is assigned to         *)
(*                               Fetcher.data: the TLS branch, and the     *)
(*                               QUIC branch with fixes/C20-quic-dial-     *)
(*                               defaults.diff                             *)
(*                        FALSE: dialQUIC's Data result is discarded by    *)
(*                               exchangeKeys (QUIC branch as it is)       *)
(*   CtxMode   what the caller's deadline does to an exchange that is      *)
(*             reading (the statement leaves it open whether such a call   *)
(*             fails at the deadline or returns late):                     *)
(*             "ignored" : ReadData never looks at its context: the call   *)
(*                         goes on when the peer does (the code as it is)  *)
(*             "returns" : the call fails at the deadline and nothing      *)
(*                         reads that connection any more                  *)
(*             "abandons": (specification self-test) the call fails at the *)
(*                         deadline, but a reader left behind keeps        *)
(*                         parsing what arrives later into Fetcher.data    *)
(*   StaleNextHop  FALSE: the SCION client derives the underlay next hop   *)
(*                        of its request from remoteAddr.Host AFTER the    *)
(*                        exchange result has been assigned to it          *)
(*                 TRUE : (specification self-test) the next hop is the    *)
(*                        host and port the client was configured with     *)
(*                                                                         *)
(* Where the request goes.  FetchData is called by the NTP client that is  *)
(* about to send a request: measureClockOffsetIP (Transport "tls": key     *)
(* exchange over TLS, NTP over UDP/IP) or measureClockOffsetSCION          *)
(* (Transport "quic": key exchange over QUIC/SCION, NTP over UDP/SCION).   *)
(* Both are called with the CONFIGURED remote address (host, CfgPort) and  *)
(* overwrite it with (Data.Server, Data.Port).  An IP datagram has one     *)
(* destination.  A SCION datagram has two: the SCION destination host and  *)
(* UDP port written into it, and the underlay address it is handed to      *)
(* (path.UnderlayNextHop()).  Client and server are in the same ISD-AS     *)
(* (empty path): the client rebuilds the path with the remote host itself  *)
(* as next hop.  (Between ASes the next hop is the border router the path  *)
(* names: not modelled, the binding has no SCION daemon.)                  *)
(***************************************************************************)
EXTENDS Integers, Sequences, FiniteSets, TLC

CONSTANTS Transport,            \* "tls" | "quic"
          ResidueAfterFailure,
          ShortCookieRead,
          DialResetsData,
          Alpns,                \* peer's answers to the ALPN offer: subset of AllAlpns
          Alphabet,             \* records the peer may send: subset of AllRecs
          CutRecs,              \* records inside which the peer may close the connection
          MaxRecs,              \* records per exchange      (model checking bound)
          MaxDials,             \* exchanges per Fetcher     (model checking bound)
          MaxCalls,             \* FetchData calls           (model checking bound)
          MaxStore,             \* StoreCookie calls         (model checking bound)
          CtxMode,              \* "ignored" | "returns" | "abandons"
          MaxStalls,            \* stalls past the deadline  (model checking bound)
          StaleNextHop

\* "ntske/1": the peer selects the offered protocol; "none": it completes the
\* handshake without selecting a protocol; "other": it insists on a protocol the
\* client did not offer (the TLS stack fails the handshake on either side);
\* "refused": the connection is dropped before the handshake completes
AllAlpns == {"ntske/1", "none", "other", "refused"}

\* np NextProto(NTPv4) | a15 AEAD(AES-SIV-CMAC-256) | aX AEAD(another algorithm) |
\* ck Cookie | sA sB Server(A|B) | sH Server(address of the host itself) |
\* pA pB Port(4001|4002) | warn Warning (type 3, critical; not a case of ReadData) |
\* uc unknown type, critical | un unknown type, not critical |
\* e0 e1 e2 eX Error(0|1|2|other) | eom End of Message
\* (+ the body length variants of uc / un / warn: see LenRecs)
BaseRecs == {"np", "a15", "aX", "ck", "sA", "sB", "sH", "pA", "pB", "warn", "uc", "un",
             "e0", "e1", "e2", "eX", "eom"}
\* BODY LENGTH.  A record is a 4-byte header (critical bit, type, body length)
\* and a body of the announced length.  The records above carry a body of the
\* typical length for their type (2 bytes for the fixed-size ones, 2..8 for
\* uc / un, an address literal, a 16-byte cookie; none for eom).  The body length
\* of a record whose type the client does not interpret is free: it may be
\* EMPTY (a flag-like record of a future extension) or ONE byte (shorter than
\* anything ReadData reads with a fixed size).  uc0 un0 warn0: unknown critical /
\* unknown non-critical / Warning with body length 0; uc1 un1 warn1: with body
\* length 1.  What the property says about such a record depends on its type and
\* critical bit only - never on its length.
LenRecs == {"uc0", "uc1", "un0", "un1", "warn0", "warn1"}
AllRecs == BaseRecs \cup LenRecs
ErrRecs == {"e0", "e1", "e2", "eX"}
UnkCrit == {"uc", "uc0", "uc1"}        \* unrecognised type, critical bit set
UnkNon  == {"un", "un0", "un1"}        \* unrecognised type, critical bit clear
Warns   == {"warn", "warn0", "warn1"}
\* body length class: 0 (no body), 1 (one byte), 2 (typical: two bytes or more)
BodyClass(r) == IF r \in {"eom", "uc0", "un0", "warn0"} THEN 0
                ELSE IF r \in {"uc1", "un1", "warn1"} THEN 1 ELSE 2
\* the stream can end / the peer can stall INSIDE the body (a part of it delivered)
HasBody(r) == BodyClass(r) = 2

Alg15 == 15      \* ntske.AES_SIV_CMAC_256
AlgX  == 16
PortA == 4001
PortB == 4002
StdPort == IF Transport = "quic" THEN 10123 ELSE 123   \* ntp.ServerPortSCION / ServerPortIP
\* the network the NTP request travels on, and the port of the remote address the
\* NTP client is configured with (its host is the key-exchange host)
Net == IF Transport = "quic" THEN "scion" ELSE "ip"
CfgPort == 4003

ASSUME /\ Transport \in {"tls", "quic"}
       /\ CtxMode \in {"ignored", "returns", "abandons"}
       /\ Alpns \subseteq AllAlpns /\ Alphabet \subseteq AllRecs /\ CutRecs \subseteq AllRecs
       \* QUIC cannot complete a handshake without an agreed application protocol
       /\ Transport = "quic" => "none" \notin Alpns
       /\ StaleNextHop \in BOOLEAN

C2S(s) == 2 * s
S2C(s) == 2 * s + 1
CookieId(s, k) == 10 * s + k
Partial(id) == -id
StoredId(k) == 900 + k
Issued(s, n) == [i \in 1 .. n |-> CookieId(s, i)]

\* ntske.Data
Data0 == [c2s |-> 0, s2c |-> 0, server |-> "", port |-> 0, algo |-> 0, pool |-> << >>]
\* what dialTLS / dialQUIC return on success
DialDefaults == [Data0 EXCEPT !.server = "host", !.port = StdPort]

(***************************************************************************)
(* The peer's side of one exchange, as far as the property talks about it: *)
(* what it answered to the ALPN offer and which records it delivered       *)
(* completely, up to and including the first End of Message.               *)
(***************************************************************************)
Sv0 == [alpn |-> "-", n |-> 0, last |-> "", nck |-> 0, a15 |-> FALSE, bad |-> FALSE,
        eom |-> FALSE, cut |-> "none", srvs |-> {}, ports |-> {}]

SvRec(v, r) ==
  [v EXCEPT !.n = @ + 1, !.last = r,
            !.nck = IF r = "ck" THEN @ + 1 ELSE @,
            !.a15 = @ \/ r = "a15",
            !.bad = @ \/ r \in ErrRecs \cup UnkCrit,
            !.eom = @ \/ r = "eom",
            !.srvs = CASE r = "sA" -> @ \cup {"A"} [] r = "sB" -> @ \cup {"B"}
                       [] r = "sH" -> @ \cup {"host"} [] OTHER -> @,
            !.ports = CASE r = "pA" -> @ \cup {PortA} [] r = "pB" -> @ \cup {PortB} [] OTHER -> @]

\* a peer script: ALPN answer, records, and whether the LAST record is cut short
\* ("none": sent completely; "hdr": the stream ends inside its 4-byte header;
\* "body": inside its body); after the records the peer closes the connection
Delivered(recs, cut) == IF cut = "none" THEN recs ELSE SubSeq(recs, 1, Len(recs) - 1)

RECURSIVE SvFold(_, _, _)
SvFold(v, s, i) == IF i > Len(s) \/ v.eom THEN v ELSE SvFold(SvRec(v, s[i]), s, i + 1)

Summary(alpn, recs, cut) ==
  LET v == SvFold([Sv0 EXCEPT !.alpn = alpn], Delivered(recs, cut), 1)
  IN IF v.eom \/ cut = "none" THEN v ELSE [v EXCEPT !.cut = cut, !.last = recs[Len(recs)]]

(***************************************************************************)
(* ReadData: effect of one completely received record on *data             *)
(***************************************************************************)
\* records on which ReadData returns an error: error records, and records whose
\* type is no case of the switch (that includes Warning, type 3) with the
\* critical bit set
Stops(r) == r \in ErrRecs \cup UnkCrit \cup Warns

\* k: cookie records of this exchange received before
RecData(d, r, s, k) ==
  CASE r = "a15" -> [d EXCEPT !.algo = Alg15]
    [] r = "aX"  -> [d EXCEPT !.algo = AlgX]
    [] r = "ck"  -> [d EXCEPT !.pool = Append(@, CookieId(s, k + 1))]
    [] r = "sA"  -> [d EXCEPT !.server = "A"]
    [] r = "sB"  -> [d EXCEPT !.server = "B"]
    [] r = "sH"  -> [d EXCEPT !.server = "host"]
    [] r = "pA"  -> [d EXCEPT !.port = PortA]
    [] r = "pB"  -> [d EXCEPT !.port = PortB]
    [] OTHER     -> d     \* np (value not looked at), un un0 un1 (swallowed, whatever the length)

\* the stream ends inside record r (w = "hdr" | "body"): binary.Read fails with
\* (unexpected) EOF and leaves its target alone; the single reader.Read of a
\* cookie body returns the bytes that did arrive without an error
CutData(d, r, w, s, k) ==
  IF w = "body" /\ r = "ck" /\ ShortCookieRead
  THEN [d EXCEPT !.pool = Append(@, Partial(CookieId(s, k + 1)))]
  ELSE d

VARIABLES data,    \* Fetcher.data
          conn,    \* "none" | "dialed" | "alpnOk" | "reading" | "eom" | "exported" | "done" | "failed"
          sess,    \* TLS/QUIC sessions established so far = number of the current one
          sv,      \* the peer's side of the current / last exchange (see Sv0)
          ret,     \* the last return of FetchData: [ok, exch (it ran an exchange), prevok (ok of
                   \*   the call before), data (the Data returned)]
          dest,    \* where the NTP request built from that return goes: [sent, net ("ip" | "scion"),
                   \*   server, port (the destination written into the datagram), hop (the underlay
                   \*   address the datagram is handed to: [server, port])]
          good,    \* ghost: the cached data stem from a successful exchange (namely session sess)
          gpool,   \* ghost: the cookies issued to this client and not yet used, in order
          ctx,     \* "live" | "expired": the deadline of the current call's context
          pend,    \* the part of its NEXT record the peer has already sent (it stalled inside it):
                   \*   [w |-> "no" | "hdr" | "body", r |-> that record]
          late,    \* the connection of a call that returned at its deadline while the peer had not
                   \*   finished: [open (the peer may still send), reader (something still reads it)]
          ncalls, ndials, nstore, nstalls

vars == <<data, conn, sess, sv, ret, dest, good, gpool, ctx, pend, late, ncalls, ndials, nstore, nstalls>>

NoHop  == [server |-> "", port |-> 0]
NoDest == [sent |-> FALSE, net |-> "-", server |-> "", port |-> 0, hop |-> NoHop]
Ret0   == [ok |-> TRUE, exch |-> TRUE, prevok |-> TRUE, data |-> Data0]
NoPend == [w |-> "no", r |-> ""]
NoLate == [open |-> FALSE, reader |-> FALSE]

Init ==
  /\ data = Data0 /\ conn = "none" /\ sess = 0 /\ sv = Sv0
  /\ ret = Ret0 /\ dest = NoDest /\ good = FALSE /\ gpool = << >>
  /\ ctx = "live" /\ pend = NoPend /\ late = NoLate
  /\ ncalls = 0 /\ ndials = 0 /\ nstore = 0 /\ nstalls = 0

Idle == conn \in {"none", "done", "failed"}
\* the next operation on the Fetcher starts after the peer has finished with the
\* connection of a call that returned at its deadline (what is still to arrive
\* there has arrived: the property speaks about the calls that FOLLOW)
Quiet == Idle /\ ~late.open

\* measureClockOffsetIP / measureClockOffsetSCION with the Data d that FetchData
\* returned: remoteAddr (as configured: "host", CfgPort) is overwritten with
\* (d.server, d.port); client_ip.go writes the datagram to remoteAddr;
\* client_scion.go writes remoteAddr.Host into the SCION and UDP headers,
\* rebuilds the intra-AS path with `NextHop: remoteAddr.Host` and hands the
\* datagram to path.UnderlayNextHop()
Send(d) ==
  LET named == [server |-> d.server, port |-> d.port]
      cfg   == [server |-> "host", port |-> CfgPort]
  IN [sent |-> TRUE, net |-> Net, server |-> named.server, port |-> named.port,
      hop |-> IF Net = "scion" /\ StaleNextHop THEN cfg ELSE named]

\* FetchData returns; the caller sends its request
Complete(ok, exch, d) ==
  /\ ret' = [ok |-> ok, exch |-> exch, prevok |-> ret.ok, data |-> d]
  /\ dest' = IF ok THEN Send(d) ELSE NoDest

\* exchangeKeys returns an error while Fetcher.data = d; FetchData returns (Data{}, err)
FailExchange(d) ==
  /\ conn' = "failed"
  /\ data' = IF ResidueAfterFailure THEN d ELSE Data0
  /\ Complete(FALSE, TRUE, Data0)
  /\ good' = FALSE
  /\ UNCHANGED gpool

\* FetchData with a non-empty pool: no exchange, hand out the first cookie
FetchCached ==
  /\ Quiet /\ data.pool # << >> /\ ncalls < MaxCalls
  /\ ncalls' = ncalls + 1
  /\ Complete(TRUE, FALSE, data)
  /\ data' = [data EXCEPT !.pool = Tail(@)]
  /\ gpool' = IF good /\ gpool # << >> THEN Tail(gpool) ELSE gpool
  /\ ctx' = "live"
  /\ UNCHANGED <<conn, sess, sv, good, pend, late, ndials, nstore, nstalls>>

\* FetchData with an empty pool: exchangeKeys; tls.DialWithDialer / scion.DialQUIC
Dial(a) ==
  /\ Quiet /\ data.pool = << >> /\ ncalls < MaxCalls /\ ndials < MaxDials
  /\ a \in Alpns
  /\ ncalls' = ncalls + 1 /\ ndials' = ndials + 1
  /\ sv' = [Sv0 EXCEPT !.alpn = a]
  /\ ctx' = "live"
  /\ IF a \in {"other", "refused"}
     THEN \* `conn, f.data, err = dialTLS(...)` assigns Data{}; `conn, _, err := dialQUIC(...)` nothing
          /\ FailExchange(IF DialResetsData THEN Data0 ELSE data)
          /\ UNCHANGED sess
     ELSE /\ conn' = "dialed" /\ sess' = sess + 1
          /\ UNCHANGED <<data, ret, dest, good, gpool>>
  /\ UNCHANGED <<pend, late, nstore, nstalls>>

\* dialTLS: `if state.NegotiatedProtocol != alpn`; its result is assigned to f.data
CheckAlpn ==
  /\ conn = "dialed"
  /\ IF Transport = "tls" /\ sv.alpn # "ntske/1"
     THEN FailExchange(IF DialResetsData THEN Data0 ELSE data)
     ELSE /\ conn' = "alpnOk"
          /\ data' = IF DialResetsData THEN DialDefaults ELSE data
          /\ UNCHANGED <<ret, dest, good, gpool>>
  /\ UNCHANGED <<sess, sv, ctx, pend, late, ncalls, ndials, nstore, nstalls>>

\* exchangeDataTLS / exchangeDataQUIC write NextProto(NTPv4), AEAD(15), End
SendRequest ==
  /\ conn = "alpnOk" /\ conn' = "reading"
  /\ UNCHANGED <<data, sess, sv, ret, dest, good, gpool, ctx, pend, late, ncalls, ndials, nstore, nstalls>>

\* the record the peer completes next is the one it has begun
Begun(r) == pend.w # "no" => r = pend.r

\* one iteration of ReadData's loop on a completely received record
ReadRecord(r) ==
  /\ conn = "reading" /\ sv.n < MaxRecs /\ r \in Alphabet /\ Begun(r)
  /\ sv' = SvRec(sv, r)
  /\ pend' = NoPend
  /\ IF Stops(r)
     THEN FailExchange(data)
     ELSE /\ data' = RecData(data, r, sess, sv.nck)
          /\ conn' = IF r = "eom" THEN "eom" ELSE "reading"
          /\ UNCHANGED <<ret, dest, good, gpool>>
  /\ UNCHANGED <<sess, ctx, late, ncalls, ndials, nstore, nstalls>>

\* the peer closes the connection inside record r
ReadCut(r, w) ==
  /\ conn = "reading" /\ sv.n < MaxRecs /\ r \in CutRecs /\ w \in {"hdr", "body"}
  /\ w = "body" => HasBody(r)
  /\ Begun(r) /\ (pend.w = "body" => w = "body")
  /\ sv' = [sv EXCEPT !.cut = w, !.last = r]
  /\ pend' = NoPend
  /\ FailExchange(CutData(data, r, w, sess, sv.nck))
  /\ UNCHANGED <<sess, ctx, late, ncalls, ndials, nstore, nstalls>>

\* the peer closes the connection at a record boundary (no End of Message)
PeerClose ==
  /\ conn = "reading" /\ pend.w = "no"
  /\ FailExchange(data)
  /\ UNCHANGED <<sess, sv, ctx, pend, late, ncalls, ndials, nstore, nstalls>>

\* The peer falls silent - at a record boundary (w = "bnd"), after a part of the
\* header (w = "hdr") or of the body (w = "body") of its next record r - and
\* stays silent until the deadline of the caller's context has passed; then it
\* continues.  ReadData (binary.Read / io.ReadFull on the connection) does not
\* look at its context: under "ignored" the call simply goes on when the peer
\* does.  Code that honours the deadline returns an error here ("returns");
\* the peer does not know and still sends the rest (LateRecord, LateClose).
StallPastDeadline(w, r) ==
  /\ conn = "reading" /\ ctx = "live" /\ pend.w = "no" /\ nstalls < MaxStalls
  /\ \/ w = "bnd" /\ r = ""
     \/ w \in {"hdr", "body"} /\ r \in CutRecs \cap Alphabet /\ sv.n < MaxRecs /\ (w = "body" => HasBody(r))
  /\ nstalls' = nstalls + 1
  /\ ctx' = "expired"
  /\ pend' = IF w = "bnd" THEN NoPend ELSE [w |-> w, r |-> r]
  /\ IF CtxMode = "ignored"
     THEN UNCHANGED <<data, conn, ret, dest, good, gpool, late>>
     ELSE /\ FailExchange(data)
          /\ late' = [open |-> TRUE, reader |-> CtxMode = "abandons"]
  /\ UNCHANGED <<sess, sv, ncalls, ndials, nstore>>

\* the peer completes another record on the connection of a call that has returned
LateRecord(r) ==
  /\ conn = "failed" /\ late.open /\ ~sv.eom /\ sv.n < MaxRecs /\ r \in Alphabet /\ Begun(r)
  /\ sv' = SvRec(sv, r)
  /\ pend' = NoPend
  /\ IF late.reader
     THEN IF Stops(r) \/ r = "eom"
          THEN data' = data /\ late' = [late EXCEPT !.reader = FALSE]
          ELSE data' = RecData(data, r, sess, sv.nck) /\ UNCHANGED late
     ELSE UNCHANGED <<data, late>>
  /\ UNCHANGED <<conn, sess, ret, dest, good, gpool, ctx, ncalls, ndials, nstore, nstalls>>

\* the peer closes that connection (inside the record it had begun, if any)
LateClose ==
  /\ conn = "failed" /\ late.open
  /\ late' = NoLate /\ pend' = NoPend
  /\ sv' = IF pend.w = "no" THEN sv ELSE [sv EXCEPT !.cut = pend.w, !.last = pend.r]
  /\ data' = IF late.reader /\ pend.w # "no" THEN CutData(data, pend.r, pend.w, sess, sv.nck) ELSE data
  /\ UNCHANGED <<conn, sess, ret, dest, good, gpool, ctx, ncalls, ndials, nstore, nstalls>>

\* ExportKeys on the connection state
Export ==
  /\ conn = "eom" /\ conn' = "exported"
  /\ data' = [data EXCEPT !.c2s = C2S(sess), !.s2c = S2C(sess)]
  /\ UNCHANGED <<sess, sv, ret, dest, good, gpool, ctx, pend, late, ncalls, ndials, nstore, nstalls>>

\* the checks at the end of exchangeKeys, then FetchData's copy and pop
Finish ==
  /\ conn = "exported"
  /\ IF data.pool = << >> \/ data.algo # Alg15
     THEN FailExchange(data)
     ELSE /\ conn' = "done"
          /\ Complete(TRUE, TRUE, data)
          /\ data' = [data EXCEPT !.pool = Tail(@)]
          /\ good' = TRUE
          /\ gpool' = IF sv.nck > 0 THEN Tail(Issued(sess, sv.nck)) ELSE << >>
  /\ UNCHANGED <<sess, sv, ctx, pend, late, ncalls, ndials, nstore, nstalls>>

\* nts.ProcessResponse hands the cookies of an authenticated NTP response over
StoreCookie ==
  /\ Quiet /\ ncalls > 0 /\ ret.ok /\ nstore < MaxStore
  /\ nstore' = nstore + 1
  /\ data' = [data EXCEPT !.pool = Append(@, StoredId(nstore + 1))]
  /\ gpool' = IF good THEN Append(gpool, StoredId(nstore + 1)) ELSE gpool
  /\ UNCHANGED <<conn, sess, sv, ret, dest, good, ctx, pend, late, ncalls, ndials, nstalls>>

StallPoints == {<<"bnd", "">>} \cup {<<w, r>> : w \in {"hdr", "body"}, r \in CutRecs}

Next ==
  \/ FetchCached
  \/ \E a \in Alpns : Dial(a)
  \/ CheckAlpn \/ SendRequest
  \/ \E r \in Alphabet : ReadRecord(r)
  \/ \E r \in CutRecs, w \in {"hdr", "body"} : ReadCut(r, w)
  \/ PeerClose
  \/ \E x \in StallPoints : StallPastDeadline(x[1], x[2])
  \/ \E r \in Alphabet : LateRecord(r)
  \/ LateClose
  \/ Export \/ Finish
  \/ StoreCookie

Spec == Init /\ [][Next]_vars

(***************************************************************************)
(* One whole FetchData call as a function of the state before it and of    *)
(* the peer's script (used by the trace specification's strict mode and    *)
(* checked against the actions above by NtsKeGen!RunAgrees).               *)
(***************************************************************************)
FailResult(d, s) ==
  [ok |-> FALSE, exch |-> TRUE, post |-> IF ResidueAfterFailure THEN d ELSE Data0, ret |-> Data0, sess |-> s]

\* sc: the peer's script [alpn, recs, cut, stall, stallw]: after `stall` complete
\* records the peer stalls past the caller's deadline (stallw = "bnd" | "hdr" |
\* "body": where in its next record; "none": it does not stall), then goes on
Stalled(sc, i) == CtxMode # "ignored" /\ sc.stallw # "none" /\ i = sc.stall + 1

RECURSIVE ReadLoop(_, _, _, _, _)
ReadLoop(d, s, sc, i, k) ==
  IF Stalled(sc, i) THEN FailResult(d, s)                          \* the deadline passes while reading
  ELSE IF i > Len(sc.recs) THEN FailResult(d, s)                   \* closed at a record boundary
  ELSE LET r == sc.recs[i] IN
    IF i = Len(sc.recs) /\ sc.cut # "none" THEN FailResult(CutData(d, r, sc.cut, s, k), s)
    ELSE IF Stops(r) THEN FailResult(d, s)
    ELSE IF r = "eom"
    THEN LET e == [d EXCEPT !.c2s = C2S(s), !.s2c = S2C(s)] IN
         IF e.pool = << >> \/ e.algo # Alg15 THEN FailResult(e, s)
         ELSE [ok |-> TRUE, exch |-> TRUE, post |-> [e EXCEPT !.pool = Tail(@)], ret |-> e, sess |-> s]
    ELSE ReadLoop(RecData(d, r, s, k), s, sc, i + 1, IF r = "ck" THEN k + 1 ELSE k)

\* d: Fetcher.data before the call, s: sessions so far, sc: the peer's script
RunCall(d, s, sc) ==
  IF d.pool # << >>
  THEN [ok |-> TRUE, exch |-> FALSE, post |-> [d EXCEPT !.pool = Tail(@)], ret |-> d, sess |-> s]
  ELSE IF sc.alpn \in {"other", "refused"}
  THEN FailResult(IF DialResetsData THEN Data0 ELSE d, s)
  ELSE IF Transport = "tls" /\ sc.alpn # "ntske/1"
  THEN FailResult(IF DialResetsData THEN Data0 ELSE d, s + 1)
  ELSE ReadLoop(IF DialResetsData THEN DialDefaults ELSE d, s + 1, sc, 1, 0)

(***************************************************************************)
(* Property section (C20)                                                  *)
(***************************************************************************)
TypeOK ==
  /\ conn \in {"none", "dialed", "alpnOk", "reading", "eom", "exported", "done", "failed"}
  /\ data.algo \in {0, Alg15, AlgX} /\ data.server \in {"", "host", "A", "B"}
  /\ data.port \in {0, StdPort, PortA, PortB}
  /\ sess \in 0 .. MaxDials /\ ret.ok \in BOOLEAN /\ good \in BOOLEAN
  /\ ctx \in {"live", "expired"} /\ pend.w \in {"no", "hdr", "body"}
  /\ late.open \in BOOLEAN /\ late.reader \in BOOLEAN /\ (late.reader => late.open)
  /\ late.open => conn = "failed"
  /\ dest.net \in {"-", Net} /\ (dest.sent <=> dest.net = Net)

\* A key exchange succeeds only if the peer negotiated ntske/1, selected
\* AES-SIV-CMAC-256, supplied at least one cookie and ended the record stream
\* with End of Message, without an error record or an unrecognised critical
\* record before it.
SuccessOnlyIf ==
  (conn = "done" /\ ret.ok /\ ret.exch) =>
     /\ sv.alpn = "ntske/1"
     /\ sv.a15
     /\ sv.nck >= 1
     /\ sv.eom
     /\ ~sv.bad

\* Unrecognised non-critical records are ignored: receiving one changes neither
\* the data nor the course of the exchange.
IgnoresNonCriticalStep ==
  (sv'.n = sv.n + 1 /\ sv'.last \in UnkNon) => (data' = data /\ conn' = conn /\ ret' = ret)
IgnoresNonCritical == [][IgnoresNonCriticalStep]_vars

\* On success both sides hold the exporter values of that session.
KeysAgree ==
  (Idle /\ ret.ok /\ good) => (ret.data.c2s = C2S(sess) /\ ret.data.s2c = S2C(sess))

\* On success the pool is exactly the cookies issued, minus those handed out.
\* "Exactly the cookies" is a statement about which cookies, each how often,
\* not about their order (the code keeps them first-in first-out, and so does
\* this specification; a property-preserving change that hands out the newest
\* cookie first was alarmed on while the clause compared sequences).
Count(s, x) == Cardinality({i \in DOMAIN s : s[i] = x})
SameCookies(p, q) ==
  /\ Len(p) = Len(q)
  /\ \A i \in DOMAIN p : Count(p, p[i]) = Count(q, p[i])
PoolIsIssued   == (Idle /\ good) => SameCookies(data.pool, gpool)
PoolReturned   == (conn = "done" /\ ret.ok /\ ret.exch) => SameCookies(ret.data.pool, Issued(sess, sv.nck))

\* NTP requests go to the server and port named in the exchange, by default to
\* the key-exchange host and the standard NTP port - whatever the client was
\* configured with.  "Go to": the endpoint the datagram is addressed to AND the
\* endpoint it is handed to (over IP these are one and the same; over SCION,
\* inside one AS, the underlay next hop is the destination host itself).
NamedServers == IF sv.srvs = {} THEN {"host"} ELSE sv.srvs
NamedPorts   == IF sv.ports = {} THEN {StdPort} ELSE sv.ports
Named(e) == e.server \in NamedServers /\ e.port \in NamedPorts
DestReturned  == (Idle /\ ret.ok /\ good) => Named(ret.data)
DestAddressed == (Idle /\ ret.ok /\ good /\ dest.sent) => Named(dest)
DestHandedTo  == (Idle /\ ret.ok /\ good /\ dest.sent) => Named(dest.hop)
Destination == DestReturned /\ DestAddressed /\ DestHandedTo

\* A failed exchange leaves nothing behind that a later request would use: a call
\* that follows a failed one and returns data has run a complete exchange of its own.
\* (Whatever the peer still sends on the connection of the failed call - it may
\* have failed at the caller's deadline, with the peer none the wiser - arrives
\* between the two calls: LateRecord, LateClose.)
NoResidue == (ret.ok /\ ~ret.prevok) => ret.exch
\* (how this implementation has to achieve it, FetchData being keyed on the pool)
NoResidueState == conn = "failed" => data.pool = << >>

=============================================================================
