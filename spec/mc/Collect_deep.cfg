SPECIFICATION FairSpec
CONSTANTS
  MaxClocks = 4
  Overlap = TRUE
  Fault = "none"
INVARIANTS TypeOK BusyIsEnabled ByDeadline ExactlyOncePrefix InTimeCounted NoStuckLeak SecondCallRefused CounterRestored
PROPERTIES NoLeak
