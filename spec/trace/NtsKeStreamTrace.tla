-------------------------- MODULE NtsKeStreamTrace --------------------------
(***************************************************************************)
(* Validation of what the real ntske.ReadData returned (harness/c14) for    *)
(* messages delivered in pieces.  One record per read: the message (recs,   *)
(* stream), the positions at which the transport's reads ended as observed  *)
(* by the harness reader (cuts), the result (data, err) and the result of   *)
(* the real code for the same stream delivered in one piece (data0, err0).  *)
(*   monitor (cfg NtsKeStreamTrace_mon, SPECIFICATION MonSpec): the         *)
(*       property section of C14 -- same result for every segmentation,     *)
(*       records decode to what was encoded.  Records are visited as a      *)
(*       16-ary tree.                                                       *)
(*   strict (cfg NtsKeStreamTrace_strict_{faithful,repaired}, StrictSpec):  *)
(*       every read is explained by the actions of NtsKeStream.tla: the     *)
(*       state machine is run on the recorded stream with Fetch bound to    *)
(*       the recorded cuts and has to end in the recorded result.           *)
(***************************************************************************)
EXTENDS Integers, Sequences, FiniteSets, TLC, Json

CONSTANT ShortCookieRead
Alphabet == {}
MaxRecs == 0
MaxChunks == 1000000
VARIABLES recs, stream, phase, pos, fetched, cuts, want, got, blen, crit, data, err, l
INSTANCE NtsKeStream
mvars == <<recs, stream, phase, pos, fetched, cuts, want, got, blen, crit, data, err>>

Trace == ndJsonDeserialize("ke_trace.ndjson")
N == Len(Trace)
R == Trace[l]

Idle == /\ recs = << >> /\ stream = << >> /\ phase = "idle"
        /\ pos = 0 /\ fetched = 0 /\ cuts = << >>
        /\ want = HdrReq /\ got = << >> /\ blen = 0 /\ crit = FALSE
        /\ data = W!KeData0 /\ err = "nil"
TInit == l = 0 /\ Idle

\* ---------------------------------------------------------------- monitor
MonNext == /\ \E j \in 1 .. 16 : l' = 16 * l + j /\ l' <= N
           /\ UNCHANGED mvars
MonSpec == TInit /\ [][MonNext]_<<mvars, l>>

RSegmentationIndependent == l > 0 => R.data = R.data0 /\ R.err = R.err0
RKeRoundTrip == (l > 0 /\ W!KeClaimed(R.recs)) =>
                   [data |-> R.data0, err |-> R.err0] = W!KeExpect(R.recs, W!KeData0)

\* ----------------------------------------------------------------- strict
\* load record l' (a child of l in the tree): the message as sent
Load == /\ phase = "idle" \/ (phase = "run" /\ pos = 0 /\ fetched = 0 /\ got = << >> /\ cuts = << >>)
        /\ \E j \in 1 .. 16 : l' = 16 * l + j /\ l' <= N
        /\ recs' = Trace[l'].recs /\ stream' = Trace[l'].stream /\ phase' = "run"
        /\ pos' = 0 /\ fetched' = 0 /\ cuts' = << >> /\ want' = HdrReq /\ got' = << >>
        /\ blen' = 0 /\ crit' = FALSE /\ data' = W!KeData0 /\ err' = "nil"
\* the transport's reads are the recorded ones
BoundFetch == Fetch /\ (phase' = "run" => Len(cuts') <= Len(R.cuts) /\ cuts'[Len(cuts')] = R.cuts[Len(cuts')])
StrictNext == Load \/ (l > 0 /\ UNCHANGED l /\ (BoundFetch \/ Take \/ Deliver))
StrictSpec == TInit /\ [][StrictNext]_<<mvars, l>>

\* the specification's message bytes are the real ones
SStream == (l > 0 /\ phase = "run" /\ pos = 0) => stream = W!KeStream(recs)
\* the model never needs a read the real code did not make ...
SNoExtraFetch == (l > 0 /\ NeedFetch /\ fetched < Len(stream)) => Len(cuts) < Len(R.cuts)
\* ... ends after exactly the recorded reads, with the recorded result
SResult == (l > 0 /\ phase = "done") => cuts = R.cuts /\ data = R.data /\ err = R.err
=============================================================================
