------------------------------ MODULE Midpoint ------------------------------
(***************************************************************************)
(* Fault-tolerant midpoint and median as implemented in                    *)
(*   base/timemath/timemath.go  (FaultTolerantMidpoint, Median, Midpoint)  *)
(*   core/measurements/measurement.go (same selection on Measurement)      *)
(* over W-bit two's-complement integers with Go's truncating division.     *)
(* Used by C02 directly and by SyncRound (C01), Multipath (C15).           *)
(* Several goroutines calling at once: MidpointConc.tla (same clauses per  *)
(* caller).                                                                *)
(***************************************************************************)
EXTENDS Integers, Sequences, FiniteSets, TLC

CONSTANTS W        \* word size of the modelled integer type (Go: 64)

H == 2 ^ (W - 1)
M == 2 ^ W
Word == (-H) .. (H - 1)

Wrap(z) == ((z + H) % M) - H
\* Go's `/ 2` truncates toward zero
TDiv2(z) == IF z >= 0 THEN z \div 2 ELSE -((-z) \div 2)

\* timemath.Midpoint(x, y) = x + (y-x)/2   (each operation wraps)
Mid(x, y) == Wrap(x + TDiv2(Wrap(y - x)))

Sort(s) == SortSeq(s, LAMBDA a, b : a < b)

Min(S) == CHOOSE x \in S : \A y \in S : x <= y
Max(S) == CHOOSE x \in S : \A y \in S : x >= y

FaultyMax(n) == (n - 1) \div 3

\* timemath.FaultTolerantMidpoint: sort, drop f = (n-1)/3 from each end
FTM(s) ==
  LET n == Len(s)
      f == FaultyMax(n)
      ss == Sort(s)
  IN Mid(ss[f + 1], ss[n - f])

\* timemath.Median
Median(s) ==
  LET n == Len(s)
      ss == Sort(s)
      i == n \div 2      \* 0-based index n/2 == 1-based i+1
  IN IF n % 2 # 0 THEN ss[i + 1] ELSE Mid(ss[i], ss[i + 1])

Range(s) == {s[i] : i \in DOMAIN s}

(***************************************************************************)
(* Property section (C02).                                                 *)
(***************************************************************************)
\* For every admissible choice F of faulty positions the result lies between
\* the smallest and the largest of the remaining (correct) values.
ContainFor(s, r) ==
  LET n == Len(s)
  IN \A F \in SUBSET (1 .. n) :
       Cardinality(F) <= FaultyMax(n) =>
         LET C == {s[i] : i \in (1 .. n) \ F}
         IN Min(C) <= r /\ r <= Max(C)

\* equivalent closed form (checked equal to ContainFor by TLC, used on long
\* recorded inputs where 2^n subsets would be wasteful)
ContainTight(s, r) ==
  LET n == Len(s) f == FaultyMax(n) ss == Sort(s)
  IN ss[f + 1] <= r /\ r <= ss[n - f]

MedianIn(s, r) == Min(Range(s)) <= r /\ r <= Max(Range(s))

IsPerm(s, t) ==
  /\ Len(s) = Len(t)
  /\ \A v \in Range(s) \cup Range(t) :
       Cardinality({i \in DOMAIN s : s[i] = v}) = Cardinality({i \in DOMAIN t : t[i] = v})

\* no overflow below 2^(W-2): the wrapped midpoint is the ideal one
Ideal(x, y) == x + TDiv2(y - x)
Small(v) == -(2 ^ (W - 2)) < v /\ v < 2 ^ (W - 2)

(***************************************************************************)
(* Model: one input sequence per behaviour (pure functions).               *)
(***************************************************************************)
CONSTANTS Vals, MaxN
VARIABLE s

\* The sequence grows one element per step, so the reachable states are exactly
\* the sequences of length 0..MaxN and TLC spreads them over its workers.
Init == s = << >>
Next == Len(s) < MaxN /\ \E v \in Vals : s' = Append(s, v)
Spec == Init /\ [][Next]_s
Chosen == s # << >>

Contain    == Chosen => ContainFor(s, FTM(s))
TightEquiv == Chosen => \A r \in Vals : ContainFor(s, r) <=> ContainTight(s, r)
MedIn      == Chosen => MedianIn(s, Median(s))
\* order independence: every rotation and every adjacent transposition
\* (these generate all permutations) leaves both results unchanged
PermInv == Chosen =>
  LET n == Len(s)
      Swap(i) == [k \in 1 .. n |-> IF k = i THEN s[i + 1] ELSE IF k = i + 1 THEN s[i] ELSE s[k]]
  IN \A i \in 1 .. (n - 1) : FTM(Swap(i)) = FTM(s) /\ Median(Swap(i)) = Median(s)
NoWrap == (Chosen /\ \A i \in DOMAIN s : Small(s[i])) =>
     LET ss == Sort(s) n == Len(s) f == FaultyMax(n)
     IN Mid(ss[f + 1], ss[n - f]) = Ideal(ss[f + 1], ss[n - f])

\* all pairs of words: the midpoint formula is exact whenever both are small,
\* in either argument order (the measurement variant relies on sortedness only)
MidPairs == \A x, y \in Word : (Small(x) /\ Small(y)) =>
              /\ Mid(x, y) = Ideal(x, y)
              /\ (x <= y => x <= Mid(x, y) /\ Mid(x, y) <= y)
              /\ (y <= x => y <= Mid(x, y) /\ Mid(x, y) <= x)
=============================================================================
