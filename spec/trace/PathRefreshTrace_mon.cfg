SPECIFICATION MonSpec
INVARIANTS PathsFromLastRefresh LocalIACurrent NotTooRare CountBound RAlias RExact ObsReport
