SPECIFICATION StrSpec
INVARIANTS SExplained STime SCache SExpected SUnits
