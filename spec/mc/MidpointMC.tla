---------------------------- MODULE MidpointMC ----------------------------
EXTENDS Midpoint, Json
\* Case emitter: every reachable input with the specification's results,
\* read by the Go driver (spec -> code direction).
Emit == Chosen => PrintT(<<"CASE", ToJson([s |-> s, ftm |-> FTM(s), med |-> Median(s), sorted |-> Sort(s)])>>)
ASSUME MidPairs
ValsExh     == {-15, -7, -2, 0, 1, 6, 15}
ValsDeep    == {-15, -2, 0, 1, 15}
ValsGen     == {-15, -6, 0, 1, 4, 15}
ValsGenDeep == {-15, -6, 0, 1, 15}
=============================================================================
