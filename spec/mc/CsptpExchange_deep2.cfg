SPECIFICATION Spec
CONSTANTS
  Clients <- TwoClients
  MaxExch = 3
  MaxDupReq = 0
  MaxDupResp = 0
  MaxInject = 0
  MaxTC = 0
  Thetas <- ThetasOne
  CtxCap = 1
  ServerMode = "paired"
  ReusePorts = FALSE
  LateRequests = FALSE
  SeqPerAttempt = FALSE
INVARIANTS OneExchange HalfRTT AcceptOnlyMatching PairsOK AnsweredOnce CtxBounded CtxOwn RespOwn NoAnswer
