SPECIFICATION Spec
CONSTANTS
  Servers = {"A"}
  B0s <- B0All
  Shapes <- ShapesAll
  Vias <- ViasAll
  MaxInject = 1
  Spoof = FALSE
  Confs <- ConfsAll
  Stores <- StoresAll
  Ancs <- AncsAll
  RestoreAtTop = TRUE
CONSTRAINTS EnvDeep
INVARIANTS ReplyIffValid ExactlyOne ToSender ReplyHeader NeverAnswersReply BoundedTraffic HistoryIndependence StoreSane
