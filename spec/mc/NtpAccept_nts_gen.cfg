SPECIFICATION Spec
CONSTANTS
  Nts = TRUE
  MaxArrivals = 1
INVARIANTS OnlyGenuine Emit
