"""X03 - PI clock discipline and NTP SHM reference clock (extension of the
specification's coverage; the properties are stated in the property sections of
the two modules).

spec/PiController.tla <-> core/sync/adjustments/pi_linux.go (PIController.Do)
spec/ShmRefClock.tla  <-> driver/shm/refclk.go, data.go, provider.go

  1. TLC decides the property sections on the specifications: PiController
     (every history of the small scope), ShmRefClock with writer and reader as
     separate processes and every field access a step of its own (mode-1
     protocol: no torn sample, no double use).  As self-tests TLC must find the
     known counterexamples: torn samples in mode 0, with the provider's
     struct-assignment writer and with a copy that reads count last; the stale
     proportional term after a step (Decomp) in PiController.
  2. TLC generates PI call histories and SHM writer/reader scripts + static
     segments, each with the result the specification computes.
  3. harness/x03 replays them on the real code.  PIController only acts through
     unix.ClockAdjtime: the driver is built against a copy of golang.org/x/sys
     in which that single wrapper calls a hook (prepared here, in the scratch
     directory; without a hook the wrapper panics, so the real kernel clock
     cannot be touched).  The SHM reader attaches to a SysV segment in a private
     IPC namespace; a racing writer thread exercises the count re-check.
  4. TLC validates the recorded events against the trace specifications:
     monitor clauses (property sections) decide VIOLATION, strict ones DRIFT.
"""
import json, os, re, shutil, subprocess
from concurrent.futures import ThreadPoolExecutor
import vlib

PI_CONST = ("kpn", "kpd", "kin", "kid", "g", "thr", "fmax")


# ------------------------------------------------------------------ Go build
def _prepare_build(ctx):
    """scratch copy of golang.org/x/sys with ClockAdjtime hooked + a modfile that
    replaces the module with it (and the repository with VERIF_REPO)"""
    vlib.ensure_harness()
    env = vlib.goenv()
    base_mod = vlib.alt_modfile() if vlib.REPO != "/repo" else os.path.join(vlib.HARNESS, "go.mod")
    p = subprocess.run([vlib.GO, "list", "-modfile=" + base_mod, "-m", "-f", "{{.Dir}}", "golang.org/x/sys"],
                       cwd=vlib.HARNESS, env=env, stdout=subprocess.PIPE, stderr=subprocess.STDOUT, text=True)
    src = p.stdout.strip().splitlines()[-1] if p.stdout.strip() else ""
    if p.returncode != 0 or not os.path.isdir(os.path.join(src, "unix")):
        raise vlib.Inconclusive("cannot locate golang.org/x/sys: %s" % p.stdout[-500:])
    dst = ctx.path("xsys")
    os.makedirs(os.path.join(dst, "unix"))
    for name in os.listdir(src):
        sp = os.path.join(src, name)
        if name == "unix":
            continue
        if os.path.isdir(sp):
            os.symlink(sp, os.path.join(dst, name))
        else:
            shutil.copy(sp, os.path.join(dst, name))
    for name in os.listdir(os.path.join(src, "unix")):
        if name != "zsyscall_linux.go":
            os.symlink(os.path.join(src, "unix", name), os.path.join(dst, "unix", name))
    text = open(os.path.join(src, "unix", "zsyscall_linux.go")).read()
    pat = re.compile(r"func ClockAdjtime\(clockid int32, buf \*Timex\) \(state int, err error\) \{.*?\n\}\n", re.S)
    if len(pat.findall(text)) != 1:
        raise vlib.Inconclusive("unix.ClockAdjtime not found in zsyscall_linux.go as expected")
    hook = ('// VerifClockAdjtimeHook stands for the clock_adjtime system call (verification build only).\n'
            'var VerifClockAdjtimeHook func(clockid int32, buf *Timex) (state int, err error)\n\n'
            'func ClockAdjtime(clockid int32, buf *Timex) (state int, err error) {\n'
            '\tif VerifClockAdjtimeHook == nil {\n'
            '\t\tpanic("verification build: clock_adjtime is blocked (no hook installed)")\n'
            '\t}\n'
            '\treturn VerifClockAdjtimeHook(clockid, buf)\n'
            '}\n')
    with open(os.path.join(dst, "unix", "zsyscall_linux.go"), "w") as f:
        f.write(pat.sub(lambda m: hook, text))
    md = ctx.path("mod")
    os.makedirs(md)
    gm = open(base_mod).read() + "\nreplace golang.org/x/sys => %s\n" % dst
    open(os.path.join(md, "go.mod"), "w").write(gm)
    shutil.copy(os.path.join(os.path.dirname(base_mod), "go.sum"), os.path.join(md, "go.sum"))
    return os.path.join(md, "go.mod")


def _godriver(ctx, modfile, cases, timeout=900):
    outp = ctx.path("trace.ndjson")
    env = vlib.goenv()
    env.update(VERIF_SEED=str(ctx.seed), VERIF_TIER=ctx.tier, VERIF_SCRATCH=ctx.scratch, VERIF_IN=cases, VERIF_OUT=outp)
    cmd = ["timeout", str(timeout), vlib.GO, "test", "-modfile=" + modfile, "-tags", "verif,x03hook", "-count", "1", "-vet=off",
           "-timeout", "%ds" % (timeout + 30), "-run", "TestX03", "-v", "./x03"]
    p = subprocess.run(cmd, cwd=vlib.HARNESS, env=env, stdout=subprocess.PIPE, stderr=subprocess.STDOUT, text=True, errors="replace")
    if p.returncode == 124:
        raise vlib.Inconclusive("go driver x03 timed out after %ss" % timeout)
    if p.returncode != 0 or not os.path.exists(outp):
        raise vlib.Inconclusive("go driver x03 failed (rc=%d):\n%s" % (p.returncode, "\n".join(p.stdout.splitlines()[-60:])))
    return outp, p.stdout


# ------------------------------------------------------------- trace validation
def _run_trace(ctx, module, cfg, part, name, want=("M", "S")):
    """one TLC pass over the events; returns {marker: sorted (event, clause) pairs}"""
    d = ctx.specdir()
    tn = name + ".ndjson"
    vlib.write_ndjson(os.path.join(d, tn), part)
    # each run reads its own trace file: a private copy of the module with the file name substituted
    mod = "%s_%s" % (module, name)
    text = open(os.path.join(d, module + ".tla")).read()
    text = text.replace("MODULE %s " % module, "MODULE %s " % mod).replace('"trace.ndjson"', '"%s"' % tn)
    open(os.path.join(d, mod + ".tla"), "w").write(text)
    r = ctx.tlc(mod, cfg, workers=1, timeout=900, tag="trace:%s:%s" % (cfg, name), heap="3g")
    res = {}
    for k in want:
        total = vlib.Ctx.emitted(r["out"], marker=k + "DONE")
        if not total:
            raise vlib.Inconclusive("trace validation %s/%s ended without its %s report:\n%s"
                                    % (module, cfg, k, "\n".join(r["out"].splitlines()[-30:])))
        pairs = sorted({(int(e["l"]), c) for e in vlib.Ctx.emitted(r["out"], marker=k + "BAD") for c in e["c"]})
        if total[0]["events"] != len(part) or total[0]["n"] != len(pairs):
            raise vlib.Inconclusive("trace validation %s/%s: report inconsistent (%s, %d pairs, %d events)"
                                    % (module, cfg, total[0], len(pairs), len(part)))
        res[k] = pairs
    return res


def _pi_cfg(ctx, consts, invs, name):
    d = ctx.specdir()
    names = dict(kpn="KPn", kpd="KPd", kin="KIn", kid="KId", g="G", thr="Thr", fmax="FMax")
    with open(os.path.join(d, name), "w") as f:
        f.write("SPECIFICATION TSpec\nCONSTANTS\n")
        for k, v in zip(PI_CONST, consts):
            f.write("  %s = %d\n" % (names[k], v))
        f.write("INVARIANTS %s\n" % invs)
    return name


def _history(part, l, key):
    i = l - 1
    s = i
    while s > 0 and part[s]["ev"] != "reset":
        s -= 1
    return part[s:i + 1]


# ------------------------------------------------------------------ self-tests
def _pi_upd(h, i, off, k, kread, w=0, x=0, kafter=0, **kw):
    r = dict(m="pi", ev="upd", h=h, i=i, kpn=1, kpd=2, kin=1, kid=2, g=8, thr=4, fmax=20, off=off, pert=0, nread=1, nwrite=1,
             read_1st=True, k=k, kread=kread, kread_err=0, x=x, x_q=True, x_eq=True, w=w, w_err=0, raw_ok=True, kafter=kafter,
             warn=False, warn_amb=False, ci=0, ca=0, cf=0, int_ok=True, decomp=True, clamped=False, exp_ok=True)
    r.update(kw)
    return r


def _pi_synth(h):
    rs = dict(_pi_upd(h, 0, 0, "none", 0), ev="reset")
    # off=1: w = 0 + 4; off=3: w = 4 - (4-2) + 12 = 14; off=-4: step; off=1: w = 14 - 0 + 4
    return [rs, _pi_upd(h, 1, 1, "freq", 0, w=4, kafter=4), _pi_upd(h, 2, 3, "freq", 4, w=14, kafter=14),
            _pi_upd(h, 3, -4, "step", 14, x=-4, kafter=14), _pi_upd(h, 4, 1, "freq", 14, w=18, kafter=18)]


def _seg(k, mode=1, count=2, valid=1):
    return dict(mode=mode, count=count, cs=k, cu=100000 * k + k + 50, rs=k, ru=100000 * k + k, valid=valid,
                cn=(100000 * k + k + 50) * 1000 + 10 * k + 5, rn=(100000 * k + k) * 1000 + 10 * k)


def _shm_call(sc, att, ok, dl=False, **kw):
    last = att[-1]
    after = dict(last, valid=0) if ok else dict(last)
    r = dict(m="shm", ev="call", sc=sc, kind="script", writer="proto", f="", v=0, dl=dl, att=att, ok=ok, err_nosample=not ok,
             s=last["rs"] if ok else 0, ns=last["rn"] if ok else 0, off=50005 if ok else 0, after=after, other_unchanged=True,
             nlog=len(att) - (1 if ok else 0), exp_ok=True, emb="synthetic", n=0, count_mismatch_rejections=0)
    r.update(kw)
    return r


def _shm_synth(sc):
    rs = dict(_shm_call(sc, [_seg(1)], True), ev="reset", att=[], after=_seg(1), ok=False)
    half = dict(_seg(2, valid=0, count=3), rs=1)
    return [rs, _shm_call(sc, [_seg(1)], True), _shm_call(sc, [_seg(1, valid=0)], False),
            _shm_call(sc, [half] * 9, False, dl=True), _shm_call(sc, [half, _seg(2, count=4)], True, dl=True)]


def _selftest(ctx):
    """corrupted-field controls: the monitors must accept hand-written correct
    traces and reject each copy in which one recorded field was falsified"""
    n = 0
    # ---- PI
    fals = [("StepRule", 3, lambda r: r.update(k="freq", w=0)), ("StepRule", 1, lambda r: r.update(k="step", x=1)),
            ("StepAmount", 3, lambda r: r.update(x=-5)), ("StepAmount", 3, lambda r: r.update(x_eq=False)),
            ("SlewValue", 2, lambda r: r.update(w=16)), ("SlewValue", 4, lambda r: r.update(w=16)),
            ("SlewValue", 2, lambda r: r.update(raw_ok=False)), ("Kind", 1, lambda r: r.update(nwrite=0, k="none")),
            ("Kind", 2, lambda r: r.update(k="other"))]
    trace, want = _pi_synth(1), set()
    for j, (clause, i, f) in enumerate(fals):
        h = _pi_synth(j + 2)
        f(h[i])
        want.add((len(trace) + i + 1, clause))
        trace += h
    cfg = _pi_cfg(ctx, (1, 2, 1, 2, 8, 4, 20), "MonitorReport", "PiControllerTrace_self.cfg")
    got = set(_run_trace(ctx, "PiControllerTrace", cfg, trace, "piself", want=("M",))["M"])
    if any(l <= 5 for l, _ in got):
        raise vlib.Inconclusive("self-test: the PI monitor rejects the correct hand-written history: %s" % sorted(got)[:5])
    if not want <= got:
        raise vlib.Inconclusive("self-test: the PI monitor did not reject falsified fields: %s" % sorted(want - got))
    n += len(fals)
    # ---- SHM
    fals = [("AcceptRule", 1, lambda r: r.update(ok=False, after=_seg(1))), ("AcceptRule", 2, lambda r: r.update(ok=True)),
            ("SampleValue", 1, lambda r: r.update(off=50006)), ("SampleValue", 1, lambda r: r.update(ns=r["ns"] + 1)),
            ("Consume", 1, lambda r: r.update(after=_seg(1))), ("Consume", 2, lambda r: r.update(after=_seg(1, valid=0, count=3))),
            ("Consume", 1, lambda r: r.update(other_unchanged=False)),
            ("Attempts", 3, lambda r: r.update(att=r["att"][:3])), ("Attempts", 2, lambda r: r.update(att=r["att"] * 2)),
            ("NoTorn", 4, lambda r: r.update(att=[r["att"][0], dict(r["att"][1], rs=1)], s=1, off=r["off"] + 10 ** 9,
                                             after=dict(r["after"], rs=1))),
            ("NoDoubleUse", 4, lambda r: r.update(att=[r["att"][0], _seg(1)], s=1, ns=_seg(1)["rn"], after=_seg(1, valid=0)))]
    trace, want = _shm_synth(1), set()
    for j, (clause, i, f) in enumerate(fals):
        h = _shm_synth(j + 2)
        f(h[i])
        want.add((len(trace) + i + 1, clause))
        trace += h
    good = dict(_shm_call(0, [_seg(1)], True), ev="stress", att=[], kind="stress", s=3, ns=_seg(3)["rn"], n=5)
    torn = dict(good, s=4)
    trace += [good, torn]
    want.add((len(trace), "NoTorn"))
    got = set(_run_trace(ctx, "ShmRefClockTrace", "ShmRefClockTrace_mon.cfg", trace, "shmself", want=("M",))["M"])
    if any(l <= 5 for l, _ in got) or (len(trace) - 1, "NoTorn") in got:
        raise vlib.Inconclusive("self-test: the SHM monitor rejects the correct hand-written scenario: %s" % sorted(got)[:5])
    if not want <= got:
        raise vlib.Inconclusive("self-test: the SHM monitor did not reject falsified fields: %s" % sorted(want - got))
    return n + len(fals) + 1


# ------------------------------------------------------------------------ run
def run(ctx):
    q = ctx.quick
    ctx.specdir()
    pool = ThreadPoolExecutor(max_workers=4)

    def T(module, cfg, **kw):
        kw.setdefault("workers", 2)
        kw.setdefault("timeout", 600)
        return pool.submit(ctx.tlc, module, cfg, **kw)

    # ---- 1. design level (all TLC runs of steps 1 and 2 are independent of the repository: run them side by side)
    pi_cfgs = ["PiController_exh.cfg", "PiController_exh2.cfg", "PiController_repaired.cfg"]
    shm_cfgs = ["ShmRefClock_exh.cfg", "ShmRefClock_atomic.cfg"]
    if not q:
        pi_cfgs += ["PiController_deep.cfg", "PiController_deep2.cfg"]
        shm_cfgs += ["ShmRefClock_deep.cfg", "ShmRefClock_mode0weak.cfg", "ShmRefClock_providerweak.cfg"]
    design = [("PiControllerMC", c, T("PiControllerMC", c)) for c in pi_cfgs]
    design += [("ShmRefClockMC", c, T("ShmRefClockMC", c, workers=4 if "deep" in c else 2, timeout=1500)) for c in shm_cfgs]
    selfs = [("PiControllerMC", "PiController_stale.cfg", "Decomp", "a slew followed by a step leaves the stale proportional term"),
             ("ShmRefClockMC", "ShmRefClock_mode0.cfg", "NoTorn", "mode 0 has no protection against a concurrent writer"),
             ("ShmRefClockMC", "ShmRefClock_provider.cfg", "NoTorn", "the provider's struct assignment does not clear valid first"),
             ("ShmRefClockMC", "ShmRefClock_order.cfg", "NoTorn", "a copy that reads count after the data defeats the count check")]
    selfr = [(m, c, inv, why, T(m, c, allow_violation=True, tag="selftest:" + c)) for m, c, inv, why in selfs]
    # ---- 2. generators
    nsim = 300 if q else 1500
    gens = [("pi", T("PiControllerMC", "PiController_gen.cfg" if q else "PiController_gendeep.cfg", workers=1, tag="gen")),
            ("pi", T("PiControllerMC", "PiController_gen2.cfg", workers=1, tag="gen")),
            ("pi", T("PiControllerMC", "PiController_sim.cfg" if q else "PiController_simdeep.cfg", workers=1,
                     simulate="num=%d" % nsim, depth=(10 if q else 24) + 1, tag="sim")),
            ("pi", T("PiControllerMC", "PiController_sim2.cfg" if q else "PiController_sim2deep.cfg", workers=1,
                     simulate="num=%d" % nsim, depth=(10 if q else 24) + 1, tag="sim")),
            ("shm", T("ShmRefClockMC", "ShmRefClock_gen.cfg" if q else "ShmRefClock_gendeep.cfg", workers=1, tag="gen")),
            ("shm", T("ShmRefClockMC", "ShmRefClock_gen0.cfg", workers=1, tag="gen")),
            ("shm", T("ShmRefClockMC", "ShmRefClock_genprov.cfg", workers=1, tag="gen")),
            ("shm", T("ShmRefClockMC", "ShmRefClock_static.cfg" if q else "ShmRefClock_staticdeep.cfg", workers=1, tag="gen"))]
    for c in ("ShmRefClock_sim.cfg", "ShmRefClock_sim0.cfg", "ShmRefClock_simprov.cfg"):
        gens.append(("shm", T("ShmRefClockMC", c, workers=1, simulate="num=%d" % nsim, depth=90, tag="sim")))
    modfile = _prepare_build(ctx)
    for m, c, fut in design:
        r = fut.result()
        ctx.log("TLC %s/%s: %d distinct / %d generated (%.0fs)" % (m, c, r["distinct"], r["generated"], r["wall_s"]))
    for m, c, inv, why, fut in selfr:
        r = fut.result()
        if r["violated"] != inv:
            raise vlib.Inconclusive("spec self-test: TLC no longer finds the %s counterexample of %s (%s): %s" % (inv, c, why, r["violated"]))
    seen, cases, npi, nshm = set(), [], 0, 0
    for kind, fut in gens:
        g = fut.result()
        em = ctx.emitted(g["out"])
        if len(em) != g["out"].count('<<"CASE"') or not em:
            raise vlib.Inconclusive("generator %s output garbled: %d of %d CASE lines parsed" % (g["cfg"], len(em), g["out"].count('<<"CASE"')))
        for c in em:
            if kind == "pi":
                c["kind"] = "pi"
            k = json.dumps(c, sort_keys=True)
            if k not in seen:
                seen.add(k)
                cases.append(c)
                npi += kind == "pi"
                nshm += kind == "shm"
    cp = ctx.path("cases.ndjson")
    vlib.write_ndjson(cp, cases)
    ctx.log("generated %d distinct PI histories and %d distinct SHM scripts / static segments" % (npi, nshm))
    # ---- 3. real code
    trace, out = _godriver(ctx, modfile, cp)
    recs = vlib.read_ndjson(trace)
    st = {}
    for line in out.splitlines():
        m = re.match(r"X03STATS (\w+) (.*)", line)
        if m:
            st[m.group(1)] = dict(kv.split("=") for kv in m.group(2).split())
    if set(st) != {"pi", "shm", "stress"}:
        raise vlib.Inconclusive("driver statistics missing:\n%s" % out[-1500:])
    ctx.log("driver: pi %s; shm %s; stress %s" % (st["pi"], st["shm"], st["stress"]))
    if int(st["stress"]["accepted"]) < 1000:
        raise vlib.Inconclusive("the racing reader accepted only %s samples" % st["stress"]["accepted"])
    # ---- 4. code -> spec
    ntests = _selftest(ctx)
    found, counts, dseen = {}, {}, set()
    pi = [r for r in recs if r["m"] == "pi"]
    shm = [r for r in recs if r["m"] == "shm"]
    groups = {}
    for r in pi:
        groups.setdefault(tuple(r[k] for k in PI_CONST), []).append(r)
    jobs = []
    for gi, (consts, part) in enumerate(sorted(groups.items())):
        cfg = _pi_cfg(ctx, consts, "MonitorReport StrictReport ObserveReport", "PiControllerTrace_g%d.cfg" % gi)
        jobs.append(("pi", part, pool.submit(_run_trace, ctx, "PiControllerTrace", cfg, part, "pig%d" % gi, ("M", "S", "O"))))
    jobs.append(("shm", shm, pool.submit(_run_trace, ctx, "ShmRefClockTrace", "ShmRefClockTrace_both.cfg", shm, "shmall")))
    nval, nobs, obs_sample = 0, 0, None
    for kind, part, fut in jobs:
        res = fut.result()
        badkeys = set()
        for l, clause in res["M"]:
            r = part[l - 1]
            if kind == "pi":
                sig = "X03 Pi %s" % clause
                key = r["h"]
                what = "real PIController.Do breaks %s: KP=%d/%d KI=%d/%d thr=%d off=%d -> %s x=%d w=%d (read %d) raw_ok=%s" % (
                    clause, r["kpn"], r["kpd"], r["kin"], r["kid"], r["thr"], r["off"], r["k"], r["x"], r["w"], r["kread"], r["raw_ok"])
            else:
                sig = "X03 Shm %s %s" % (clause, r["kind"])
                key = r["sc"]
                what = "real ReferenceClock.MeasureClockOffset breaks %s (%s): ok=%s s=%d ns=%d off=%d attempts=%d last=%s after=%s" % (
                    clause, r["kind"], r["ok"], r["s"], r["ns"], r["off"], len(r["att"]),
                    json.dumps(r["att"][-1]) if r["att"] else "-", json.dumps(r["after"]))
            badkeys.add((kind, key))
            counts[sig] = counts.get(sig, 0) + 1
            if sig not in found:
                found[sig] = (what, _history(part, l, key))
        keys = {(kind, r["h"] if kind == "pi" else r["sc"]) for r in part}
        nval += len(keys - badkeys)
        for l, clause in res["S"]:
            r = part[l - 1]
            k = (kind, clause, r.get("k"), r.get("kind"))
            if k in dseen or len(ctx.drift) >= 20:
                continue
            dseen.add(k)
            if kind == "pi":
                ctx.drift.append("call differs from PiController!Do as written (%s): history %d call %d off=%d -> %s w=%d kafter=%d "
                                 "warn=%s c.i=%d c.freqAddend=%d c.freq=%d" % (clause, r["h"], r["i"], r["off"], r["k"], r["w"],
                                                                               r["kafter"], r["warn"], r["ci"], r["ca"], r["cf"]))
            else:
                ctx.drift.append("reader call differs from ShmRefClock as written (%s): scenario %d (%s) ok=%s attempts=%d nlog=%d"
                                 % (clause, r["sc"], r["kind"], r["ok"], len(r["att"]), r["nlog"]))
        for l, clause in res.get("O", []):
            nobs += 1
            if obs_sample is None:
                obs_sample = _history(part, l, None)
    for sig, (what, hist) in sorted(found.items()):
        ctx.violation(sig, "%s (%d recorded events)" % (what, counts[sig]), hist)
    if nobs:
        ctx.notes.append("observation (not judged): after a slew followed by a step the kernel frequency keeps the whole previous "
                         "proportional term although c.i was increased by KI times it (kernel frequency != base + c.i + c.freqAddend) "
                         "in %d recorded calls; PiController_stale.cfg is the specification-level counterexample" % nobs)
    ctx.log("validated %d histories/scenarios (monitor), %d failing clause signatures, %d drift notes, %d Decomp observations"
            % (nval, len(found), len(ctx.drift), nobs))
    # ---- evidence
    upd = [r for r in pi if r["ev"] == "upd"]
    calls = [r for r in shm if r["ev"] in ("call", "stress")]
    distinct = len({json.dumps(c, sort_keys=True) for c in cases
                    if (c["kind"] == "pi" and any(u["k"] == "step" for u in c["u"]) and any(u["k"] == "freq" for u in c["u"]))
                    or (c["kind"] != "pi" and any(e["e"] != "w" and e["ok"] for e in c["ev"]) and any(e["e"] != "w" and not e["ok"] for e in c["ev"]))
                    or (c["kind"] == "static")})
    samples = [r for r in pi if r["h"] == 2][:5] + [r for r in shm if r["sc"] == 3][:6] + [r for r in shm if r["ev"] == "stress"][:2]
    if obs_sample:
        samples.append(dict(observation="Decomp after step", history=obs_sample[-3:]))
    ctx.cov.update(
        evaluations=len(upd) + len(calls), distinct_nontrivial=distinct,
        rule="PI: call histories generated by TLC from PiController.tla (every history of length 3 over offsets 0/+-1/+-(thr-1)/"
             "+-thr/+-(thr+1)/far, external frequency changes, initial kernel frequencies incl. the clamp; random walks of 10/24 calls; "
             "three gain/threshold settings incl. threshold 0), replayed under the exact embedding (one frequency unit = 32768000/FMax "
             "scaled ppm). SHM: every interleaving of the writer's field writes with 2-3 single-attempt reader calls (mode 1, mode 0, "
             "provider writer), random interleavings with retrying calls, static segments over mode/valid/count/usec-ns pairs, "
             "8 Provider->ReferenceClock round trips, a racing mode-1 writer thread. distinct_nontrivial = distinct generated PI "
             "histories containing both a step and a slew + distinct SHM scripts with both an accepted and a rejected attempt + "
             "distinct static segments; evaluations = recorded PI calls + recorded reader calls + distinct racing results",
        traces_validated_against_impl=nval, exhaustive=False, monitor_selftests=ntests,
        expectation_mismatches=int(st["pi"]["mismatches"]) + int(st["shm"]["mismatches"]),
        stress_accepted=int(st["stress"]["accepted"]), stress_rejected=int(st["stress"]["rejected"]),
        stress_count_mismatch_rejections=int(st["stress"]["count_mismatch_rejections"]),
        decomp_observations=nobs, samples=samples)
    ctx.assumptions += [
        "PIController.Do is driven with unix.ClockAdjtime replaced (link-time, scratch copy of golang.org/x/sys) by a model of the "
        "kernel's frequency register clamped to +-32768000 scaled ppm; everything else is the unmodified repository code",
        "offsets are whole quanta and gains dyadic so that the exact result is integral; the float64 result may differ by one scaled ppm",
        "the proportional term stays below 2^63 scaled ppm (|offset*KP| < 1.4e8 s); beyond, int64(freq*65536e6) is not defined by Go",
        "SHM: sequentially consistent memory; the struct copy reads the fields in address order (count before the data); the scripted "
        "writer runs only between calls and between the retries of one call, finer interleavings only through the racing thread",
        "the racing writer publishes 8 distinguishable samples cyclically; a mixture of samples 8 apart would not be recognised",
        "small scope: TLC decides the SHM protocol for 2 (3) samples and 2 (3) calls with 1 retry; PI histories <= 4 calls exhaustively",
    ]
