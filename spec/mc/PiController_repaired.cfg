SPECIFICATION Spec
CONSTANTS
  KPn = 1
  KPd = 2
  KIn = 1
  KId = 2
  G = 8
  Thr = 4
  FMax = 20
  Offs <- OffsSmall
  Perturb <- PertSmall
  K0s <- K0sSmall
  MaxLen = 4
  StepWritesFreq = TRUE
INVARIANTS X03Pi PaGhost Decomp
