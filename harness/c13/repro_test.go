// Stand-alone reproduction of the C13 finding "reply to a request that arrived
// over a one-hop path keeps path type OneHop in the header although the
// reversed path is a standard SCION path" (candidate repair:
// /verif/fixes/C13-onehop-reply-pathtype.diff). Not part of bin/check:
//
//	cd /verif/harness && USE_MOCK_KEYS=true go1.26 test -tags verif -count 1 -vet=off -run TestOneHopReplyRepro ./c13 -v
package c13

import (
	"math/rand"
	"testing"
	"time"

	"github.com/scionproto/scion/pkg/slayers/path/onehop"
	"github.com/scionproto/scion/pkg/slayers/path/scion"
)

func TestOneHopReplyRepro(t *testing.T) {
	h := setup(t)
	rng := rand.New(rand.NewSource(1))
	P := h.listen(h.w.ipP)
	defer P.Close()
	oh := apath{Kind: "onehop", Segs: []aseg{{Cons: true, Sid: 41, Hops: []int{8, 9}}}}
	for _, l4 := range []string{"udp", "echo"} {
		s := &pktSpec{srcIA: iaC, dstIA: iaS, srcHost: v4(h.w.ipC), dstHost: v4(h.w.ipS["server"]), sport: 4444,
			dport: uint16(h.w.srvPort), path: oh, l4: l4, payload: h.payload(l4, "ntp", h.tag(), rng)}
		req := build(s, rng)
		if _, err := P.WriteToUDP(req, udpAddr(h.w.ipS["server"], h.w.srvPort)); err != nil {
			t.Fatal(err)
		}
		got := drain(P, 500*time.Millisecond)
		if len(got) != 1 {
			t.Fatalf("%s: %d replies", l4, len(got))
		}
		rep := got[0].b
		lq, lr := layoutOf(req), layoutOf(rep)
		wantType, wantBytes := reversedPathBytes(lq.pathType, req[lq.pathOff:lq.hdrLen])
		t.Logf("%s request: path type %d, %d path bytes", l4, lq.pathType, lq.hdrLen-lq.pathOff)
		t.Logf("%s reply:   path type %d, %d path bytes; Path.Reverse() of the request's path has type %d, %d bytes",
			l4, lr.pathType, lr.hdrLen-lr.pathOff, wantType, len(wantBytes))
		if lq.pathType != onehop.PathType || wantType != scion.PathType {
			t.Fatal("unexpected library behaviour")
		}
		if lr.pathType != wantType {
			t.Errorf("%s: the reply's header announces path type %d for a path of type %d: a receiver decodes %+v instead of %+v",
				l4, lr.pathType, wantType, h.projectOnly(rep), h.projectBytes(wantType, wantBytes))
		}
	}
}

func (h *harness) projectOnly(b []byte) apath {
	d, _ := h.w.project("server", b, portMap{})
	return d.Path
}

func (h *harness) projectBytes(t interface{ String() string }, pb []byte) apath {
	raw := &scion.Raw{}
	if err := raw.DecodeFromBytes(pb); err != nil {
		return apath{Kind: "undecodable"}
	}
	return projectPath(raw)
}
