-------------------------- MODULE CsptpExchangeGen --------------------------
(***************************************************************************)
(* Schedule generator for the X01 harness (tlc -simulate).  One random,     *)
(* weighted choice among the enabled moves per step; every step is a step   *)
(* of CsptpExchange!Next.  The history lists the moves in a form the        *)
(* harness can execute: request datagrams are named by (kind, exchange,     *)
(* copy), genuine responses by (kind, pairing h, copy), forged ones by n.   *)
(***************************************************************************)
EXTENDS CsptpExchange, Json
VARIABLE hist
OneClient == {1}
TwoClients == {1, 2}
ThetasGen == {0, 40, -40}
ThetasOne == {0}

Pick(S) == RandomElement(S)
Name(m) == IF IsReq(m) THEN [kind |-> m.kind, ex |-> m.ex, copy |-> m.copy, h |-> 0, n |-> 0]
           ELSE [kind |-> m.kind, ex |-> m.ex, copy |-> m.copy, h |-> m.h, n |-> m.n]

Reqs  == {m \in net : IsReq(m)}
RespsOf(c) == {m \in net : IsResp(m) /\ pend[c] # NoReq /\ m.cl = c /\ m.sock = pend[c].sock}
Resps == UNION {RespsOf(c) : c \in Clients}
Busy  == {c \in Clients : pend[c] # NoReq}
Idle  == {c \in Clients : pend[c] = NoReq}

Moves ==
     (IF nex < MaxExch THEN {<<"send", c>> : c \in Idle} ELSE {})
  \cup (IF Cardinality(Thetas) > 1 /\ ~(nex = MaxExch /\ Busy = {}) THEN {<<"theta">>} ELSE {})
  \cup {<<"srecv", m>> : m \in Reqs} \cup {<<"dropq", m>> : m \in Reqs}
  \cup {<<"dupq", m>> : m \in {x \in Reqs : dupq < MaxDupReq /\ x.copy = 0}}
  \cup {<<"tcq", m>> : m \in {x \in Reqs : tcs < MaxTC /\ x.kind = "sync"}}
  \cup {<<"crecv", m>> : m \in Resps} \cup {<<"dropr", m>> : m \in Resps}
  \cup {<<"dupr", m>> : m \in {x \in Resps : dupr < MaxDupResp /\ x.copy = 0}}
  \cup {<<"tcr", m>> : m \in {x \in Resps : tcs < MaxTC /\ x.kind = "rsync" /\ x.f = ""}}
  \cup (IF injs < MaxInject THEN {<<"inject", c>> : c \in Busy} ELSE {})
  \cup {<<"timeout", c>> : c \in Busy}

\* the server's clock is stepped mostly between exchanges (weight 1 while a call runs)
Weight(mv) == CASE mv[1] = "send" -> 8 [] mv[1] = "theta" -> (IF Busy = {} THEN 4 ELSE 1)
                [] mv[1] = "srecv" -> 8 [] mv[1] = "dropq" -> 1 [] mv[1] = "dupq" -> 3 [] mv[1] = "tcq" -> 2
                [] mv[1] = "crecv" -> 8 [] mv[1] = "dropr" -> 1 [] mv[1] = "dupr" -> 3 [] mv[1] = "tcr" -> 2
                [] mv[1] = "inject" -> 5 [] mv[1] = "timeout" -> 1

\* (the bound of the draw mentions a variable on purpose: TLC expands a top-level
\* \E over a constant set once, at start-up, which would freeze the draw)
GNext ==
  \E w \in {Pick(1 .. (IF now >= 0 THEN 8 ELSE 7))} :
    LET cand0 == {mv \in Moves : Weight(mv) >= w}
        cand  == IF cand0 = {} THEN Moves ELSE cand0 IN
    /\ cand # {}
    /\ \E mv \in {Pick(cand)}, f \in {Pick(IF now >= 0 THEN Flaws ELSE {})} :
         CASE mv[1] = "send"    -> ClientSend(mv[2]) /\ hist' = Append(hist, [a |-> "send", cl |-> mv[2], ex |-> nex + 1])
           [] mv[1] = "theta"   -> ThetaChange /\ hist' = Append(hist, [a |-> "theta", t |-> theta'])
           [] mv[1] = "srecv"   -> ServerRecv(mv[2]) /\ hist' = Append(hist, [a |-> "srecv", m |-> Name(mv[2]),
                                                                   h |-> IF hcount' # hcount THEN hcount' ELSE 0])
           [] mv[1] = "dropq"   -> NetDrop(mv[2]) /\ hist' = Append(hist, [a |-> "drop", m |-> Name(mv[2])])
           [] mv[1] = "dupq"    -> NetDup(mv[2]) /\ hist' = Append(hist, [a |-> "dup", m |-> Name(mv[2])])
           [] mv[1] = "tcq"     -> NetTC(mv[2]) /\ hist' = Append(hist, [a |-> "tc", m |-> Name(mv[2])])
           [] mv[1] = "crecv"   -> (\E c \in {mv[2].cl} : ClientRecv(c, mv[2]))
                                   /\ hist' = Append(hist, [a |-> "crecv", cl |-> mv[2].cl, m |-> Name(mv[2]), res |-> res'.kind])
           [] mv[1] = "dropr"   -> NetDrop(mv[2]) /\ hist' = Append(hist, [a |-> "drop", m |-> Name(mv[2])])
           [] mv[1] = "dupr"    -> NetDup(mv[2]) /\ hist' = Append(hist, [a |-> "dup", m |-> Name(mv[2])])
           [] mv[1] = "tcr"     -> NetTC(mv[2]) /\ hist' = Append(hist, [a |-> "tc", m |-> Name(mv[2])])
           [] mv[1] = "inject"  -> Inject(mv[2], f) /\ hist' = Append(hist, [a |-> "inject", cl |-> mv[2], f |-> f, n |-> injs + 1])
           [] mv[1] = "timeout" -> ClientTimeout(mv[2]) /\ hist' = Append(hist, [a |-> "timeout", cl |-> mv[2]])

HInit == Init /\ hist = << >>
HSpec == HInit /\ [][GNext]_<<vars, hist>>
\* a schedule is complete when all calls have been made and none is running
Done == nex = MaxExch /\ Busy = {}
Emit == Done => PrintT(<<"CASE", ToJson(hist)>>)
\* observation classes: emit the walk at the moment the client reports a mixed result
Mixed == res.kind = "ok" /\ ~(res.t1.ex = res.ex /\ res.t2.h = res.t1.h /\ res.t3.h = res.t2.h)
EmitMixed == Mixed => PrintT(<<"CASE", ToJson(hist)>>)
=============================================================================
