SPECIFICATION TSpec
INVARIANTS RDistinct RStickyKept RElseReset RParticipants RFtm RNoPathError RWordRange RUniformRounds RUniformSample
