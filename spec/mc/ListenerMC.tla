----------------------------- MODULE ListenerMC -----------------------------
EXTENDS Listener, Json

\* the statement's quantifier: all 256 first bytes x lengths x trailing data
B0All  == 0 .. 255
Lens   == {0, 1, 47, 48, 49, 75, 76, 1024, 2048}
EnvTrailers == TrailerNames \ {"nts_resp"}
\* every trailer class at its natural length and, padded, at the listed lengths
ShapesAll == {sh \in (Lens \cup {NatLen(c) : c \in EnvTrailers}) \X EnvTrailers :
                /\ ShapeOK(sh[1], sh[2])
                /\ (sh[1] \in Lens \/ sh[1] = NatLen(sh[2]))}
\* <<transport, path kind, host address types>>
ViasAll   == {<<"ip", "empty", "44">>} \cup {<<"scion", k, f>> : k \in PathKinds, f \in Fams}

\* the valid first bytes and their near misses (one field off), the reply byte
B0Key == {8, 19, 27, 35, 200, 211, 219, 227,
          36, 228, 11, 16, 3, 43, 59, 99, 163, 32, 33, 34, 37, 38, 39, 0, 255, 24, 75}
ShapesPair == {<<47, "none">>, <<48, "none">>, <<252, "nts_ok">>, <<252, "nts_badmac">>}
ViasPair   == {<<"ip", "empty", "44">>, <<"scion", "empty", "44">>, <<"scion", "s2", "64">>}
ShapesDeep == {<<48, "none">>, <<252, "nts_ok">>, <<49, "short">>}
ViasDeep   == {<<"ip", "empty", "44">>, <<"scion", "s1", "46">>}
B0Deep     == {8, 35, 227, 36, 228, 11, 32, 163}
ViasGenPair == {<<"ip", "empty", "44">>, <<"scion", "empty", "44">>}
ShapesGenPair == {<<47, "none">>, <<48, "none">>, <<252, "nts_ok">>}
\* histories of three datagrams on one listener socket
B0Hist     == {35, 36}
ShapesHist == {<<1, "none">>, <<48, "none">>, <<252, "nts_ok">>, <<76, "garbage">>}
ViasHist   == {<<"ip", "empty", "44">>, <<"scion", "empty", "44">>}

ASSUME Reflection
ASSUME HeaderTestExact
ASSUME Cardinality(ShapesAll) = 54

\* quick tier: the full first-byte x shape product over IP and over SCION with
\* the empty path and IPv4 hosts; multi-segment paths with the key first bytes;
\* other host address types with the key first bytes, two path kinds, lengths 48 / 252
Narrow(x) ==
  /\ (x.pk = "empty" \/ x.b0 \in B0Key)
  /\ (x.fam = "44" \/ (x.b0 \in B0Key /\ x.pk \in {"empty", "s2"} /\ x.len \in {48, 252}))
\* thorough tier: everything with IPv4 hosts; other address types with the key first bytes
Wide(x) == x.fam = "44" \/ x.b0 \in B0Key
GenQuick == draft.stage \in {"via", "addr"} => Narrow(draft)
GenDeep  == draft.stage \in {"via", "addr"} => Wide(draft)
\* pair generator: only forged sources (the others are the ordinary cases)
GenPairQuick == draft.stage # "idle" => draft.b0 \in B0Key
\* nothing needs to be handled while generating
GenStop == draft.stage # "addr" /\ ninj = 0

Case(x) ==
  LET d == DraftDgram(x)
  IN [tp |-> x.tp, b0 |-> x.b0, len |-> x.len, tr |-> x.tr, pk |-> x.pk, fam |-> x.fam, from |-> x.from, to |-> x.to,
      t |-> Trailer(x.tr), nat |-> NatLen(x.tr), path |-> PathOf(x.pk), sc |-> d.sc,
      exp |-> Len(Replies(x.to, d)), drop |-> DropStage(x.to, d)]
Emit == draft.stage = "addr" => PrintT(<<"CASE", ToJson(Case(draft))>>)
EmitPair == (draft.stage = "addr" /\ draft.from # Client) => PrintT(<<"CASE", ToJson(Case(draft))>>)
=============================================================================
