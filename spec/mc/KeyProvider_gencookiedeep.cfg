SPECIFICATION SpecGenCookie
CONSTANTS
  Day = 4
  Gaps <- GapsGen
  Horizon = 40
  GenLen = 6
INVARIANTS EmitCookie
