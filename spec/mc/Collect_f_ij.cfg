SPECIFICATION FairSpec
CONSTANTS
  MaxClocks = 3
  Overlap = TRUE
  Fault = "ij"
INVARIANTS ByDeadline ExactlyOncePrefix InTimeCounted NoStuckLeak SecondCallRefused CounterRestored
PROPERTIES NoLeak
