"""Shared by C06 and C07: ServerStore.tla <-> core/server/server.go."""
import os, vlib

EXH_PROPS = None


def _cut(recs, l):
    """events of the behaviour that contains (1-based) position l, up to l"""
    if not l:
        return recs[-40:]
    i = l - 1
    s = i
    while s > 0 and recs[s]["ev"] != "reset":
        s -= 1
    return recs[s:i + 1]


def run(ctx, which):
    q = ctx.quick
    # 1. design level: every history of <= MaxOps operations at small constants
    r = ctx.tlc("ServerStoreMC", "ServerStore_exh.cfg" if q else "ServerStore_deep.cfg",
                timeout=300 if q else 1500, workers=8)
    ctx.log("TLC exhaustive: %d distinct states, %d generated" % (r["distinct"], r["generated"]))
    # 2. behaviours from the specification (random walks through Next)
    nA, nB = (400, 250) if q else (6000, 4000)
    traces = []
    for mode, n, depth, cap in (("A", nA, 26, "0"), ("B", nB, 18, "2")):
        g = ctx.tlc("ServerStoreGen", "ServerStore_gen%s.cfg" % mode, workers=1, timeout=600,
                    simulate="num=%d" % n, depth=depth, tag="gen" + mode)
        beh = ctx.emitted(g["out"])
        if len(beh) < n // 3:
            raise vlib.Inconclusive("generator %s produced only %d behaviours" % (mode, len(beh)))
        cp = ctx.path("beh%s.ndjson" % mode)
        vlib.write_ndjson(cp, beh)
        tp, out = ctx.godriver("c06", "TestReplay", cases=cp, out_name="trace%s.ndjson" % mode,
                               env={"VERIF_CAP": cap})
        traces.append((mode, "replay", tp, len(beh)))
        ctx.log("replayed %d behaviours (mode %s)" % (len(beh), mode))
    # 3. concurrent listeners on the real code, in-lock order, sequential re-execution
    try:
        tp, out = ctx.godriver("c06", "TestConcurrent", out_name="traceC.ndjson",
                               env={"VERIF_CAP": "0", "VERIF_ROUNDS": "12" if q else "150"})
        traces.append(("A", "concurrent", tp, 12 if q else 150))
    except vlib.Inconclusive as e:
        # the Go runtime kills the process on unsynchronised map access; that is an
        # observation about the code under test when its frames are on the stack
        msg = str(e)
        if ("fatal error: concurrent map" in msg or "DATA RACE" in msg) and "scion-time/core/server" in msg:
            if which == "C07":
                ctx.violation("C07 concurrent-crash", "the 16-goroutine driver died in core/server: unsynchronised "
                              "access to the timestamp store", {"output": msg[-3000:]})
        else:
            raise
    # the same with the model capacity 2 (store pre-filled): evictions, stateless
    # service and removals of other listeners' clients race with the updates
    try:
        tp, out = ctx.godriver("c06", "TestConcurrent", out_name="traceCB.ndjson",
                               env={"VERIF_CAP": "2", "VERIF_ROUNDS": "10" if q else "120"})
        traces.append(("B", "concurrent-full", tp, 10 if q else 120))
    except vlib.Inconclusive as e:
        msg = str(e)
        if ("fatal error: concurrent map" in msg or "DATA RACE" in msg or "panic:" in msg) and "scion-time/core/server" in msg:
            if which == "C07":
                ctx.violation("C07 concurrent-crash", "the 16-goroutine driver (full store) died in core/server",
                              {"output": msg[-3000:]})
        else:
            raise
    if not q:
        tp, out = ctx.godriver("c06", "TestConcurrent", out_name="traceCr.ndjson", race=True,
                               env={"VERIF_CAP": "0", "VERIF_ROUNDS": "40"}, timeout=1500)
        if "WARNING: DATA RACE" in out:
            ctx.violation("C07 data race", "race detector report in concurrent driver", {"output": out[-3000:]})
        traces.append(("A", "concurrent-race", tp, 40))
    # the scenario of known finding C06-aba (kept out of the generated behaviours)
    if which == "C06":
        tp, out = ctx.godriver("c06", "TestReplay", cases=os.path.join(vlib.SPEC, "mc", "ServerStore_aba.ndjson"),
                               out_name="traceX.ndjson", env={"VERIF_CAP": "0"})
        traces.append(("A", "aba-scenario", tp, 2))
    # 4. code -> spec
    nval, nev, samples = 0, 0, []
    for mode, kind, tp, nb in traces:
        recs = vlib.read_ndjson(tp)
        nev += len(recs)
        if not samples:
            samples = recs[1:4]
        cfg = "ServerStoreTrace_%s%s.cfg" % (which.lower(), mode)
        bad_behaviours = 0
        # a violation ends TLC's run: cut the offending behaviour out and validate
        # the rest, so that one (possibly known) finding does not hide the others
        pp = ctx.path("cur.ndjson")
        for attempt in range(200):
            vlib.write_ndjson(pp, recs)
            ok, l, inv, tout = ctx.validate("ServerStoreTrace", cfg, pp, timeout=900, workers=1)
            if ok:
                break
            if inv == "POSTCONDITION" or l is None:
                raise vlib.Inconclusive("trace %s/%s not consumed by ServerStoreTrace:\n%s" % (mode, kind, tout[-1500:]))
            bad = recs[l - 1]
            ctx.violation("%s %s %s%s" % (which, inv, bad["ev"], " " + kind if kind == "aba-scenario" else ""),
                          "recorded %s trace (mode %s) violates %s at event %d: %s" % (kind, mode, inv, l, bad),
                          {"mode": mode, "kind": kind, "events": _cut(recs, l)})
            bad_behaviours += 1
            if len(ctx.violations) >= 4:
                break  # enough unlisted violations to report; stop exploring this trace
            s = l - 1
            while s > 0 and recs[s]["ev"] != "reset":
                s -= 1
            e = l - 1
            while e < len(recs) and recs[e]["ev"] != "end":
                e += 1
            recs = recs[:s] + recs[e + 1:]
            if not recs:
                break
        else:
            raise vlib.Inconclusive("more than 200 violating behaviours in one trace (%s/%s)" % (mode, kind))
        ctx.log("validated %s/%s: %d events, %d violating behaviours cut" % (mode, kind, len(recs), bad_behaviours))
        nval += max(0, nb - bad_behaviours)
        if bad_behaviours or not recs:
            continue
        ok, l, inv, tout = ctx.validate("ServerStoreTrace", "ServerStoreTrace_strict%s.cfg" % mode, pp,
                                        timeout=900, workers=1)
        if not ok:
            ctx.drift.append("%s/%s: step %s not the one ServerStore.tla takes (%s): %s" %
                             (mode, kind, l, inv, recs[l - 1] if l else "?"))
    ctx.cov.update(traces_validated_against_impl=nval, events_validated=nev, samples=samples,
                   rule="TLC -simulate walks of ServerStore's Next (3 clients, 3 listeners, T=0..5, "
                        "ItemCap 8; mode A: real capacity never reached, exact heap compared; mode B: model "
                        "capacity 2 on a store pre-filled with 2^20-2 filler clients) replayed on the real "
                        "handleRequest/updateTXTimestamp; plus 16-goroutine concurrent rounds ordered by the "
                        "in-lock hook and re-executed sequentially")
    ctx.assumptions += ["filler clients (receive times one hour later) are never the heap minimum, so the last "
                        "Cap slots of the real 2^20-entry store behave like the model's store",
                        "Time64FromTime is injective and monotone on the nanosecond range used (checked at start-up)"]
