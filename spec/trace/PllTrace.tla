------------------------------ MODULE PllTrace ------------------------------
(***************************************************************************)
(* Validation of the update histories recorded by harness/c19 from the     *)
(* real adjustments.Pll (scripted clock, capturing logger) against         *)
(* Pll.tla.  The trace is a concatenation of histories, each introduced by *)
(* a reset event; event l+1 is consumed by every step.                     *)
(*                                                                         *)
(*  monitor: the property section of Pll.tla (the ...P predicates)         *)
(*           evaluated on the recorded calls.  o* variables are bound to   *)
(*           the logged projection: the inputs as replayed, the clock      *)
(*           epoch at entry / after the call, what the Epoch() reads       *)
(*           returned, where external steps landed inside the call, the    *)
(*           mode attribute of the "PLL iteration" log record, the         *)
(*           Step/Adjust calls the clock received and at which access;     *)
(*           oEstart is the clock-side ghost "reading at which the current *)
(*           clock epoch began", oNow / oLo the readings when the last     *)
(*           call returned / was made.  All times are the clock's own.     *)
(*  strict:  the Pll.tla variables are advanced by Pll!RunCall on the same *)
(*           inputs and the same external steps; mode, reads and call must *)
(*           be the ones the specification computes (drift only).          *)
(* Every failing (event, clauses) pair is printed when the event is        *)
(* consumed (MBAD / SBAD lines) and counted in mbad / sbad; MonitorReport /*)
(* StrictReport print the totals at the end of the trace, so that one run  *)
(* names every failing clause of every event.  PllTrace_first.cfg has the  *)
(* ordinary invariant MonitorClean (stops at the first failure and prints  *)
(* the behaviour: for short traces).                                       *)
(***************************************************************************)
EXTENDS Integers, Sequences, TLC, Json

U == 1000
OneMs == 2
OffMax == 20
PB == 500000
SatSecs == 2001
Advs == {}
Offs == {}
Weights == {}
AllowSat == TRUE
BumpDen == 1
InitClkEpochs == {0}
MaxLen == 1000000
RawMags(b) == {b}
Jumps == {}
StepAt == {}
MaxInDo == 0
\* the code under test has both repairs (Step(measured), d clamped to the
\* largest whole number of seconds of a time.Duration) and reads Epoch() first
StepUsesDoubleInv == FALSE
DurationWraps == FALSE
ReadsNowFirst == FALSE

VARIABLES mode, epoch, t0, t, now, clkEpoch, estart, pc, nacc, rnow, pend, cur, stp, nin,
          nowIn, esIn, prevLo, act, lastIn, hist,                         \* Pll.tla, advanced by Pll!RunCall
          l,                                                              \* events consumed
          oNow, oLo, oQ, oCep2, oMode, oEstart,                           \* observed projection
          mbad, sbad                                                      \* failing clauses so far
INSTANCE Pll

Trace == ndJsonDeserialize("trace.ndjson")
N == Len(Trace)

tvars == <<vars, l, oNow, oLo, oQ, oCep2, oMode, oEstart, mbad, sbad>>

\* ------------------------------------------------------------------ observed
ObsAct(a) == [k |-> a.k, x |-> a.x, p |-> a.p, d |-> IF a.d_pos THEN 1 ELSE 0, ffin |-> a.ffin]

\* The clock's own timeline of one update, from what the scripted clock
\* recorded: the reading when Do was called (cx.nowIn), the start of the clock
\* epoch current then (cx.esIn), the reading when the previous update was
\* called (cx.lo), and the external steps that landed inside the call
\* (R.ks[i]: after k accesses, jump j).  Between two accesses only a step
\* moves the reading.
RECURSIVE JumpBefore(_, _, _)
JumpBefore(ks, i, ai) == IF i > Len(ks) THEN 0
                         ELSE (IF ks[i].k < ai THEN ks[i].j ELSE 0) + JumpBefore(ks, i + 1, ai)
DistBefore(ks, ai) == \E i \in DOMAIN ks : ks[i].k < ai
\* facts about the ai-th clock access of the update, if it is an actuation call
LiAt(R, lb, cx, ai) ==
  LET at == TAdd(cx.nowIn, JumpBefore(R.ks, 1, ai), FALSE)
  IN [lb EXCEPT !.since = IF DistBefore(R.ks, ai) THEN 0 ELSE TSub(at, cx.esIn),   \* a step that has just landed began the epoch
                !.sinceIn = TSub(at, cx.esIn),
                !.dt = TSub(at, cx.lo)]
\* an epoch change was observed through the clock's epoch: one of the Epoch()
\* reads of this update returned another value than the read before it
RECURSIVE ObsChain(_, _, _)
ObsChain(prev, q, i) == IF i > Len(q) THEN FALSE ELSE (q[i] # prev \/ ObsChain(q[i], q, i + 1))

\* ------------------------------------------------------------ monitor clauses
\* (R: the event, lb: facts about the update as observed, cx: its timeline)
Li(R, lb, cx, i) == LiAt(R, lb, cx, R.acts[i].ai)
MStepMode(R, lb, cx)   == \A i \in DOMAIN R.acts : StepModeP(ObsAct(R.acts[i]), Li(R, lb, cx, i))
MStepWait(R, lb, cx)   == \A i \in DOMAIN R.acts : StepWaitP(ObsAct(R.acts[i]), Li(R, lb, cx, i))
MStepWeight(R, lb, cx) == \A i \in DOMAIN R.acts : StepWeightP(ObsAct(R.acts[i]), Li(R, lb, cx, i))
MStepOffset(R, lb, cx) == \A i \in DOMAIN R.acts : StepOffsetP(ObsAct(R.acts[i]), Li(R, lb, cx, i))
MStepAmount(R, lb, cx) == \A i \in DOMAIN R.acts :
                        R.acts[i].k = "step" => (R.acts[i].x_eq /\ StepAmountP(ObsAct(R.acts[i]), Li(R, lb, cx, i)))
MTrackingOnlySlews(R, lb, cx) == \A i \in DOMAIN R.acts : TrackingOnlySlewsP(ObsAct(R.acts[i]), Li(R, lb, cx, i))
MSlewBound(R, lb, cx)  == \A i \in DOMAIN R.acts :
                        R.acts[i].k = "adjust" =>
                          /\ R.acts[i].slew_within_bound                       \* exact, on the real values
                          /\ (R.acts[i].p_small => SlewBoundP(ObsAct(R.acts[i]), Li(R, lb, cx, i)))
MPositiveDuration(R, lb, cx) == \A i \in DOMAIN R.acts : PositiveDurationP(ObsAct(R.acts[i]))
MFiniteFrequency(R, lb, cx)  == \A i \in DOMAIN R.acts : FiniteFrequencyP(ObsAct(R.acts[i]))
\* The phase of the start-up sequence ("waiting for its initial step", "tracking")
\* is the Pll's own, as it declares it in the `mode` attribute of its debug
\* record, WHEN that attribute is there.  A property-preserving change that
\* renamed the attribute was alarmed on (mode unknown = -1 satisfied no clause),
\* so without it the phase is derived from what can be observed: the Pll is
\* waiting for its initial step as long as it has not actuated (stepped or
\* slewed) since the start of the clock epoch it observed last, and past that
\* afterwards (1 = waiting, 3 = past it).  oMode carries both.
DvAfter(R, li, dvB) ==
  IF Len(R.acts) > 0 THEN 3
  ELSE IF li.obs THEN 1
  ELSE dvB
ModeAfter(R, li, dvB) == IF R.mode >= 0 THEN R.mode ELSE DvAfter(R, li, dvB)
MEpochRestarts(R, lb, cx) ==
  /\ \A i \in DOMAIN R.acts : EpochRestartsP(ObsAct(R.acts[i]), lb, ModeAfter(R, lb, lb.dvB))
  /\ EpochRestartsP(NoAct, lb, ModeAfter(R, lb, lb.dvB))

MFailing(R, lb, cx) ==
  (IF MStepMode(R, lb, cx) THEN << >> ELSE <<"StepMode">>) \o
  (IF MStepWait(R, lb, cx) THEN << >> ELSE <<"StepWait">>) \o
  (IF MStepWeight(R, lb, cx) THEN << >> ELSE <<"StepWeight">>) \o
  (IF MStepOffset(R, lb, cx) THEN << >> ELSE <<"StepOffset">>) \o
  (IF MStepAmount(R, lb, cx) THEN << >> ELSE <<"StepAmount">>) \o
  (IF MTrackingOnlySlews(R, lb, cx) THEN << >> ELSE <<"TrackingOnlySlews">>) \o
  (IF MSlewBound(R, lb, cx) THEN << >> ELSE <<"SlewBound">>) \o
  (IF MPositiveDuration(R, lb, cx) THEN << >> ELSE <<"PositiveDuration">>) \o
  (IF MFiniteFrequency(R, lb, cx) THEN << >> ELSE <<"FiniteFrequency">>) \o
  (IF MEpochRestarts(R, lb, cx) THEN << >> ELSE <<"EpochRestarts">>)

\* ------------------------------------------------------------- strict clauses
\* evaluated on the primed Pll.tla variables (the specification's result for
\* the same inputs and the same external steps) against the event
SMode(R)  == R.mode = mode'
\* the reading when Do was called / returned, the one reading Now() gave
SReading(R) == /\ R.now_t = nowIn'.t /\ R.now_e = nowIn'.e /\ R.end_t = now'.t
               /\ R.nnow = 1 /\ R.rnow_t = rnow'.t /\ R.rnow_e = rnow'.e
\* the clock epoch afterwards, the Pll's epoch (the last value it read), the
\* number of clock accesses and what the Epoch() reads returned
SEpoch(R) == /\ R.cep2 = clkEpoch' /\ R.na = nacc'
             /\ Len(R.q) \in {1, 2} /\ R.q[Len(R.q)] = epoch'
             /\ (Len(R.q) = 2 <=> lastIn'.obs)
SLogged(R) == R.nlog = 1 /\ ~R.panic
SAct(R) ==
  IF act'.k = "none" THEN Len(R.acts) = 0
  ELSE /\ Len(R.acts) = 1
       /\ R.acts[1].k = act'.k
       /\ R.acts[1].ai = nacc'
       /\ (act'.k = "step" => R.acts[1].x = act'.x)
       /\ (act'.k = "adjust" =>
             /\ R.acts[1].d_whole /\ R.acts[1].d = act'.d
             /\ (R.acts[1].p_small => (R.acts[1].p = act'.p /\ (R.acts[1].p = 0 \/ Sgn(R.acts[1].p) = Sgn(R.off)))))
\* gain branch taken in tracking mode, read off the logged gain a
SGain(R) == R.gc = hist'[Len(hist')].gc
SFailing(R) ==
  (IF SMode(R) THEN << >> ELSE <<"Mode">>) \o
  (IF SGain(R) THEN << >> ELSE <<"Gain">>) \o
  (IF SReading(R) THEN << >> ELSE <<"Reading">>) \o
  (IF SEpoch(R) THEN << >> ELSE <<"Epoch">>) \o
  (IF SLogged(R) THEN << >> ELSE <<"Logged">>) \o
  (IF SAct(R) THEN << >> ELSE <<"Act">>)

\* print the failing clauses of event n (TRUE either way)
Say(marker, names, n) == names = << >> \/ PrintT(<<marker, ToJson([l |-> n, c |-> names])>>)

\* ----------------------------------------------------------------- behaviour
TInit ==
  /\ Init
  /\ l = 0
  /\ oNow = Time0 /\ oLo = Time0 /\ oQ = 0 /\ oCep2 = 0 /\ oMode = [lg |-> 0, dv |-> 1] /\ oEstart = Time0
  /\ mbad = 0 /\ sbad = 0

Reset(R) ==
  /\ Set(S0(R.c0))
  /\ oNow' = Time0 /\ oLo' = Time0 /\ oQ' = 0 /\ oCep2' = R.c0 /\ oMode' = [lg |-> 0, dv |-> 1] /\ oEstart' = Time0
  /\ UNCHANGED <<mbad, sbad>>

RECURSIVE SumJ(_, _)
SumJ(ks, i) == IF i > Len(ks) THEN 0 ELSE ks[i].j + SumJ(ks, i + 1)

Upd(R) ==
  LET in   == [adv |-> R.adv, sat |-> R.sat, bump |-> R.bump, off |-> R.off, w |-> R.w]
      \* the symbolic proportional term is whatever the code slewed by
      raw  == IF Len(R.acts) = 1 /\ R.acts[1].k = "adjust" /\ R.acts[1].p_small THEN R.acts[1].p ELSE 0
      now1 == TAdd(oNow, R.adv, R.sat)           \* the reading when Do is called
      ext  == R.cep # oCep2                      \* the clock epoch was bumped since the last call returned
      es1  == IF ext THEN now1 ELSE oEstart
      end  == TAdd(now1, SumJ(R.ks, 1), FALSE)   \* the reading when Do has returned
      cx   == [nowIn |-> now1, esIn |-> es1, lo |-> oLo]
      lb   == [off |-> R.off, w |-> R.w, modeB |-> IF oMode.lg >= 0 THEN oMode.lg ELSE oMode.dv, dvB |-> oMode.dv,
               obs |-> ObsChain(oQ, R.q, 1), since |-> 0, sinceIn |-> 0, dt |-> 0]
  IN
  /\ Set(RunCall(S, in, raw, R.ks))
  /\ oNow' = end /\ oLo' = now1
  /\ oQ' = IF R.q = << >> THEN oQ ELSE R.q[Len(R.q)]
  /\ oCep2' = R.cep2
  /\ oMode' = [lg |-> R.mode, dv |-> DvAfter(R, lb, oMode.dv)]
  \* a clock epoch that began inside this call (external step or the Pll's own
  \* Step) began at the last reading of the call: only steps move the reading
  /\ oEstart' = IF R.cep2 # R.cep THEN end ELSE es1
  /\ mbad' = mbad + Len(MFailing(R, lb, cx)) /\ Say("MBAD", MFailing(R, lb, cx), l')
  /\ sbad' = sbad + Len(SFailing(R)) /\ Say("SBAD", SFailing(R), l')

TNext ==
  /\ l < N
  /\ l' = l + 1
  /\ IF Trace[l'].ev = "reset" THEN Reset(Trace[l']) ELSE Upd(Trace[l'])

TSpec == TInit /\ [][TNext]_tvars

\* -------------------------------------------------------------- verdicts
MonitorClean == mbad = 0
StrictClean  == sbad = 0
\* End-of-trace reports: always TRUE (so that TLC does not print a behaviour of
\* N states); checks/c19.py reads the MBAD / SBAD lines and these totals.  A
\* total of 0 means every monitor / strict clause held on every event.
MonitorReport == l = N => PrintT(<<"MDONE", ToJson([n |-> mbad, events |-> N])>>)
StrictReport  == l = N => PrintT(<<"SDONE", ToJson([n |-> sbad, events |-> N])>>)
=============================================================================
