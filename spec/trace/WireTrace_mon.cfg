SPECIFICATION TSpec
INVARIANTS RLayRoundTrip RLayReencode RLaybReencode RLaypRoundTrip RLvmAgree RLvmSetGet RNtsKinds RNtsValues RNtsAuth RNtsAligned RSck RCrypt RHistRoundTrip RResultsStable
