--------------------------- MODULE NtpAcceptTrace ---------------------------
(***************************************************************************)
(* What the real IPClient did with every crafted datagram (harness/c03     *)
(* TestC05), judged by the acceptance predicate of NtpAccept.tla.          *)
(* got is decided without the client's log: the measurement call returned  *)
(* a measurement time-stamped at this datagram's delivery / the client's   *)
(* filter was called / its interleaved state took the datagram's receive   *)
(* time (ok); the attempt ended otherwise (error); the datagram was read   *)
(* and the call is parked again on the same socket (skip).  lg: optional   *)
(* class according to log records with today's names (strict only).        *)
(***************************************************************************)
EXTENDS Integers, Sequences, FiniteSets, TLC, Json
Nts == FALSE
MaxArrivals == 0
VARIABLES il, queue, retries, state, last, hist
INSTANCE NtpAccept

Trace == ndJsonDeserialize("trace.ndjson")
N == Len(Trace)
VARIABLE l
TInit == l = 0 /\ il = FALSE /\ queue = << >> /\ retries = 0 /\ state = "trace" /\ last = Genuine(FALSE) /\ hist = << >>
TNext == /\ \E j \in 1 .. 16 : l' = 16 * l + j /\ l' <= N
         /\ UNCHANGED <<il, queue, retries, state, last, hist>>
TSpec == TInit /\ [][TNext]_<<l, il, queue, retries, state, last, hist>>
R == Trace[l]
\* monitor (C05): an offset is reported only on the basis of an acceptable datagram
\* (records of the NTS driver carry ntson = TRUE; the others have no such field)
NtsOn(r) == "ntson" \in DOMAIN r /\ r.ntson
TOnlyGenuine == (l > 0 /\ R.got = "ok") => AcceptX(R.d, R.il, NtsOn(R))
\* strict: the reaction is the one the specification's receive loop has
SReaction == (l > 0 /\ R.want # "" /\ R.got # "ignored") => R.want = R.got
\* optional: where log records with the names known today were seen, they tell the same
SLog == (l > 0 /\ "lg" \in DOMAIN R /\ R.lg # "" /\ R.got # "ignored") => R.lg = R.got
=============================================================================
