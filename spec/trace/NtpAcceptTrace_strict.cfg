SPECIFICATION TSpec
INVARIANTS SReaction SLog
