SPECIFICATION Spec
CONSTANTS
  W = 6
  MaxN = 3
  K = 2
  Bands <- Bands2
  Far <- FarHi
  Variants <- VarDur
  Shared = FALSE
  SortedInputs = FALSE
INVARIANTS NoOverlap
