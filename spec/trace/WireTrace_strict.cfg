SPECIFICATION TSpec
INVARIANTS SLayBytes SLayFull SLayb SLvm SNtsEnc SNtsDec SSck
