package c20

// Stand-alone reproduction of finding e (C20-failed-exchange-residue) on the real
// ntske.Fetcher, without TLC: a key-exchange peer that sends one cookie and then
// an error record; the next FetchData call returns that cookie with nil keys and
// never contacts the peer. Informational (prints REPRODUCED / NOT REPRODUCED).
//
//	cd /verif/harness && go1.26 test -tags verif -count 1 -vet=off -v -run TestReproResidue ./c20

import (
	"context"
	"crypto/tls"
	"fmt"
	"log/slog"
	mrand "math/rand"
	"net"
	"sync/atomic"
	"testing"

	"example.com/scion-time/net/ntske"
)

func TestReproResidue(t *testing.T) {
	cert := selfSigned(t)
	ln, err := tls.Listen("tcp", "127.0.0.1:0", &tls.Config{Certificates: []tls.Certificate{cert},
		NextProtos: []string{"ntske/1"}, MinVersion: tls.VersionTLS13})
	if err != nil {
		t.Fatal(err)
	}
	defer ln.Close()
	var conns atomic.Int64
	go func() {
		for {
			c, err := ln.Accept()
			if err != nil {
				return
			}
			conns.Add(1)
			if !readRequest(c) {
				c.Close()
				continue
			}
			msg := append(rec(1, true, u16(0)), rec(4, true, u16(15))...)   // NextProto, AEAD 15
			msg = append(msg, rec(5, false, []byte("0123456789abcdef"))...) // Cookie
			msg = append(msg, rec(2, true, u16(2))...)                      // Error: internal server error
			c.Write(msg)
			c.Close()
		}
	}()
	_, port, _ := net.SplitHostPort(ln.Addr().String())
	f := &ntske.Fetcher{Log: slog.New(slog.DiscardHandler), Port: port}
	f.TLSConfig = tls.Config{InsecureSkipVerify: true, ServerName: "127.0.0.1", MinVersion: tls.VersionTLS13}
	_, err1 := f.FetchData(context.Background())
	n1 := conns.Load()
	d2, err2 := f.FetchData(context.Background())
	n2 := conns.Load()
	fmt.Printf("call 1: err=%v (connections so far %d)\n", err1, n1)
	fmt.Printf("call 2: err=%v cookies=%d c2s=%v s2c=%v (connections so far %d)\n", err2, len(d2.Cookie), d2.C2sKey, d2.S2cKey, n2)
	if err1 != nil && err2 == nil && n2 == n1 {
		fmt.Println("REPRODUCED: the call after a failed exchange returned the failed exchange's cookie without a new exchange")
	} else {
		fmt.Println("NOT REPRODUCED")
	}
}

// Stand-alone reproduction of the second finding (C20-quic-dial-defaults): over
// QUIC/SCION exchangeKeys discards the Data that dialQUIC returns, so a peer that
// names neither server nor port leaves Data.Server "" and Data.Port 0 (the
// property: by default the key-exchange host and the standard NTP port), and
// whatever an earlier exchange set stays in force for the next one.
//
//	cd /verif/harness && go1.26 test -tags verif -count 1 -vet=off -v -run TestReproQuicDefaults ./c20
func TestReproQuicDefaults(t *testing.T) {
	n := allocNet(t, 300)
	defer n.close()
	h := &logCapture{}
	w := &worker{t: t, net: n, logh: h, log: slog.New(h)}
	q := newQPeer(selfSigned(t), n)
	defer q.ln.Close()
	q.resetCase(1, mrand.New(mrand.NewSource(1)))
	f := &q.newClient(w).Auth.NTSKEFetcher
	q.setPlan(mscript{Alpn: "ntske/1", Recs: []string{"np", "a15", "ck", "eom"}, Cut: "none"})
	d, err := f.FetchData(context.Background())
	fmt.Printf("exchange 1 (NextProto, AEAD 15, Cookie, End): err=%v Server=%q Port=%d\n", err, d.Server, d.Port)
	if err == nil && d.Server == "" && d.Port == 0 {
		fmt.Println("REPRODUCED: no default destination over QUIC")
	} else {
		fmt.Println("NOT REPRODUCED")
	}
}
