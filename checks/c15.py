"""C15 - multipath SCION measurement: distinct paths, sticky interleaved paths,
uniform selection of the rest, fault-tolerant midpoint over one value per
participant, error without paths.

spec/Multipath.tla <-> core/client/client.go MeasureClockOffsetSCION,
base/crypto/crypto.go Sample/RandIntn (harness/c15)."""
import itertools, math, os, random, threading
import vlib

U32 = 1 << 32
# the monitor clauses of spec/trace/MultipathTrace_mon.cfg
MON_INVARIANTS = ["RDistinct", "RStickyKept", "RElseReset", "RParticipants", "RFtm", "RNoPathError",
                  "RWordRange", "RUniformRounds", "RUniformSample"]


def lcm_upto(n):
    l = 1
    for i in range(2, n + 1):
        l = l * i // math.gcd(l, i)
    return l


def consuming(k, n):
    """moduli (i+1) of Sample's draws that read a word (RandIntn(1) reads none)"""
    return [i + 1 for i in range(k, n) if i + 1 >= 2]


def rng_of(v, k, n):
    """the RandIntn results Sample(k, n) obtains from word residues v"""
    r, it = [], iter(v)
    for i in range(k, n):
        r.append(0 if i + 1 < 2 else next(it) % (i + 1))
    return r


def cfg_key(c):
    return (c["nc"], tuple(c["offered"]), tuple(c["mode"]))


class Builder:
    def __init__(self, ctx):
        self.ctx = ctx
        self.rnd = random.Random(ctx.seed * 7919 + (0 if ctx.quick else 1))
        self.out = []
        self.gid = 0
        self.nid = 0
        self.ngroups = 0

    def v_for(self, rng, k, n, L):
        v = []
        for i, j in zip(range(k, n), rng):
            if i + 1 >= 2:
                v.append(j + (i + 1) * self.rnd.randrange(L // (i + 1)))
        return v

    def round(self, case, v, L, script=None, g=(0, 0, 0), exp_off=True, rej=None):
        nc = case["nc"]
        self.nid += 1
        if script is None:
            script = [dict(fail=0, rank=0) for _ in range(nc)]
        fk = [self.rnd.randrange(4) if m == 0 else 0 for m in case["mode"]]
        if rej is None:
            rej = [1 if self.rnd.random() < 0.1 else 0 for _ in v]
        self.out.append(dict(
            kind="round", id=self.nid, gid=g[0], gpos=g[1], glen=g[2], L=L, D=len(v), v=v, rej=rej,
            nc=nc, offered=case["offered"], mode=case["mode"], fresh_kind=fk, theta=case["theta"],
            script=script,
            exp=dict(asg=case["asg"], resets=case["resets"], rng=case["rng"], err=case["err"],
                     off=case["off"] if exp_off else -999)))

    def sample(self, k, n, v, L, g=(0, 0, 0)):
        # (no rejected words inside uniformity groups: the enumeration must stay
        # uniform whatever the sampler's acceptance test is)
        rej = [0 for _ in v] if g[0] else [1 if self.rnd.random() < 0.3 else 0 for _ in v]
        self.out.append(dict(kind="sample", gid=g[0], gpos=g[1], glen=g[2], L=L, D=len(v), v=list(v),
                             rej=rej, k=k, n=n))

    def word(self, n, words):
        self.out.append(dict(kind="word", n=n, words=[w % U32 for w in words]))


def script_of(case, rnd, allow_drop):
    """responder script realising the completion order / outcomes of a TLC case"""
    nc = case["nc"]
    sc = [dict(fail=0, rank=0) for _ in range(nc)]
    for rank, (c, ok) in enumerate(case["order"]):
        sc[c - 1]["rank"] = rank
        if not ok:
            sc[c - 1]["fail"] = 2 if (allow_drop and rnd.random() < 0.5) else 1
    for c, o in enumerate(case["outcome"]):
        if o == "late":
            sc[c]["fail"] = 2  # never answered: the context ends the round
    return sc


def build_cases(ctx, gen, genc):
    q = ctx.quick
    b = Builder(ctx)
    rnd = b.rnd
    # ---- index TLC's rounds by configuration and rng
    by_cfg = {}
    for c in gen:
        by_cfg.setdefault(cfg_key(c), {})[tuple(c["rng"])] = c
    cfgs = sorted(by_cfg)
    # ---- (a) every configuration: one rng sequence (quick) / all of them (thorough)
    for key in cfgs:
        m = by_cfg[key]
        seqs = sorted(m)
        pick = [rnd.choice(seqs)] if q else seqs
        for r in pick:
            c = m[r]
            n = c["k"] + len(c["rng"])
            L = lcm_upto(max(n, 1))
            b.round(c, b.v_for(c["rng"], c["k"], n, L), L)
    n_single = len(b.out)
    # ---- (b) uniformity groups: all word tuples over 0..L-1 for a configuration
    classes = {}
    for key in cfgs:
        any_case = next(iter(by_cfg[key].values()))
        k = any_case["k"]
        n = k + len(any_case["rng"])
        if k >= 1 and n > k:
            classes.setdefault((n, k), []).append(key)
    budget = 900 if q else 40000
    per_class = {}
    for (n, k) in sorted(classes):
        size = lcm_upto(n) ** len(consuming(k, n))
        if q and size > 200:
            continue
        want = max(1, min(len(classes[(n, k)]), (budget // max(1, len(classes))) // size))
        per_class[(n, k)] = rnd.sample(classes[(n, k)], want)
    for (n, k), keys in sorted(per_class.items()):
        L = lcm_upto(n)
        mods = consuming(k, n)
        for key in keys:
            b.gid += 1
            b.ngroups += 1
            tuples = list(itertools.product(range(L), repeat=len(mods)))
            for pos, v in enumerate(tuples):
                c = by_cfg[key][tuple(rng_of(v, k, n))]
                b.round(c, list(v), L, g=(b.gid, pos + 1, len(tuples)), rej=[0] * len(v))
    n_group = len(b.out) - n_single
    # ---- (c) completion orders / failures / cancellation (TLC's genc cases)
    want_c = 260 if q else 6000
    max_slow = 14 if q else 150
    pool = [c for c in genc if c["order"] or c["cancelled"]]
    rnd.shuffle(pool)
    slow = 0
    taken = 0
    for c in pool:
        if taken >= want_c:
            break
        is_slow = c["cancelled"]
        sc = script_of(c, rnd, allow_drop=slow < max_slow)
        if any(s["fail"] == 2 for s in sc):
            if slow >= max_slow:
                continue
            slow += 1
        n = c["k"] + len(c["rng"])
        L = lcm_upto(max(n, 1))
        b.round(c, b.v_for(c["rng"], c["k"], n, L), L, script=sc)
        taken += 1
    n_compl = taken
    # ---- (d) crypto.Sample directly: complete word enumerations (uniformity groups)
    nmax = 4 if q else 5
    for n in range(0, nmax + 1):
        L = lcm_upto(max(n, 1))
        for k in range(0, n + 2):
            kk = min(k, n)
            mods = consuming(kk, n)
            size = L ** len(mods)
            if kk == 0 or size > (2000 if q else 4000):
                # no selection to count (or too large): a few single calls
                for _ in range(6):
                    b.sample(k, n, [rnd.randrange(L) for _ in mods], L)
                continue
            b.gid += 1
            b.ngroups += 1
            tuples = list(itertools.product(range(L), repeat=len(mods)))
            for pos, v in enumerate(tuples):
                b.sample(k, n, v, L, g=(b.gid, pos + 1, len(tuples)))
    if not q:
        for (k, n) in ((5, 6), (4, 6)):
            L = lcm_upto(n)
            mods = consuming(k, n)
            b.gid += 1
            b.ngroups += 1
            tuples = list(itertools.product(range(L), repeat=len(mods)))
            for pos, v in enumerate(tuples):
                b.sample(k, n, v, L, g=(b.gid, pos + 1, len(tuples)))
    # ---- (e) RandIntn on boundary words
    ns = list(range(1, 70)) + [rnd.randrange(70, 1 << 15) for _ in range(40 if q else 400)]
    ns += [(1 << 15) - 1, 1 << 15, (1 << 16) + 1, (1 << 31) - 1, (1 << 31) - 2, (1 << 30) + 1, 3 << 29, 1000000007]
    for n in ns:
        t = U32 % n
        b.word(n, [t - 1, t, t + 1] if t >= 1 else [t, t + 1])
        b.word(n, [0, U32 - 1])
        b.word(n, [t, U32 - 1])
        b.word(n, [t + 1])
        b.word(n, [rnd.randrange(U32) for _ in range(6)] + [U32 - 2])
    stats = dict(configurations=len(cfgs), single_rounds=n_single, group_rounds=n_group, groups=b.ngroups,
                 completion_rounds=n_compl, sample_calls=sum(1 for x in b.out if x["kind"] == "sample"),
                 randintn_calls=sum(1 for x in b.out if x["kind"] == "word"))
    return b.out, stats


def count_uniform_from_cases(gen):
    """The counting statement on TLC's complete state graph: for every
    configuration the emitted terminal states carry every rng sequence once
    (weight prod 1/(i+1) each); every k-subset of the free candidates must be
    reached by the same number of them."""
    by_cfg = {}
    for c in gen:
        by_cfg.setdefault(cfg_key(c), []).append(c)
    checked = 0
    for key, cs in by_cfg.items():
        k = cs[0]["k"]
        n = k + len(cs[0]["rng"])
        if len(cs) * math.factorial(k) != math.factorial(n):
            raise vlib.Inconclusive("TLC emitted %d rng sequences for %s, expected %d" %
                                    (len(cs), key, math.factorial(n) // math.factorial(k)))
        kept = {c for c in range(key[0]) if key[2][c] != 0 and cs[0]["resets"][c] == 0}
        counts = {}
        for c in cs:
            ch = frozenset(c["asg"][i] for i in range(key[0]) if i not in kept and c["asg"][i] != 0)
            counts[ch] = counts.get(ch, 0) + 1
        if len(counts) != math.comb(n, k) or len(set(counts.values())) != 1:
            raise vlib.Inconclusive("specification-level: selection not uniform for %s: %s" % (key, counts))
        checked += 1
    return checked


def corrupt(ctx, recs):
    """Negative control of the binding itself (never set in normal runs):
    VERIF_C15_CORRUPT=ret|asg|freset|uniform|word falsifies one recorded field
    after the driver ran; the monitor must then reject the trace."""
    what = os.environ.get("VERIF_C15_CORRUPT")
    if not what:
        return
    rounds = [r for r in recs if r["kind"] == "round"]
    if what == "ret":
        r = next(x for x in rounds if sum(1 for a in x["asg"] if a) >= 2 and x["err"] == "none")
        r["ret"] += 2
    elif what == "asg":
        r = next(x for x in rounds if sum(1 for a in x["asg"] if a) >= 2)
        i, j = [c for c, a in enumerate(r["asg"]) if a][:2]
        r["asg"][j] = r["asg"][i]
        r["probed"][j] = [r["asg"][i]]
    elif what == "freset":
        r = next(x for x in rounds if any(m != 0 and m not in x["offered"] for m in x["mode"]))
        c = next(c for c, m in enumerate(r["mode"]) if m != 0 and m not in r["offered"])
        r["freset"][c] = 0
    elif what == "uniform":
        # swap the selection of one round of a group for another one's
        g = [x for x in rounds if x["gid"] and x["glen"] >= 6]
        a = g[0]
        b = next(x for x in g if x["gid"] == a["gid"] and x["asg"] != a["asg"])
        a["asg"], a["probed"] = list(b["asg"]), [list(p) for p in b["probed"]]
    elif what == "word":
        r = next(x for x in recs if x["kind"] == "word" and x["n"] == 5)
        r["res"] = 5
    else:
        raise vlib.Inconclusive("unknown VERIF_C15_CORRUPT=%s" % what)
    ctx.notes.append("NEGATIVE CONTROL: recorded field %s was falsified after the run" % what)
    ctx.log("negative control: falsified %s" % what)


def run(ctx):
    q = ctx.quick
    res = {}
    errs = []

    def bg(name, f):
        def w():
            try:
                res[name] = f()
            except BaseException as e:  # re-raised in the main thread
                errs.append(e)
        t = threading.Thread(target=w)
        t.start()
        return t

    ctx.specdir()
    # 1. design level (all four TLC runs are independent of /repo; run side by side)
    ths = [
        bg("exh", lambda: ctx.tlc("MultipathMC", "Multipath_exh.cfg" if q else "Multipath_deep.cfg",
                                  workers=3 if q else 6, timeout=300 if q else 1500, tag="exh")),
        bg("gen", lambda: ctx.tlc("MultipathMC", "Multipath_gen.cfg", workers=1, timeout=300, tag="gen")),
        bg("genc", lambda: ctx.tlc("MultipathMC", "Multipath_genc.cfg" if q else "Multipath_gencdeep.cfg",
                                   workers=1, timeout=300 if q else 900, tag="genc")),
        bg("rand", lambda: ctx.tlc("MultipathMC", "Multipath_rand.cfg" if q else "Multipath_randdeep.cfg",
                                   workers=1, timeout=300 if q else 900, tag="rand")),
        # warm the Go build cache meanwhile
        bg("warm", lambda: ctx.gotest("c15", "NoSuchTest", timeout=900)),
    ]
    if not q:
        ths.append(bg("deep2", lambda: (ctx.tlc("MultipathMC", "Multipath_deep2.cfg", workers=4, timeout=1500, tag="deep2"),
                                        ctx.tlc("MultipathMC", "Multipath_deep3.cfg", workers=4, timeout=1500, tag="deep3"))))
    for t in ths:
        t.join()
    if errs:
        raise errs[0]
    ctx.log("TLC: exh %d states, gen %d, genc %d; RandIntn/reservoir counting ASSUMEs hold" %
            (res["exh"]["distinct"], res["gen"]["distinct"], res["genc"]["distinct"]))
    gen = ctx.emitted(res["gen"]["out"])
    genc = ctx.emitted(res["genc"]["out"])
    if len(gen) < 5000 or len(genc) < 5000:
        raise vlib.Inconclusive("case generators produced only %d / %d rounds" % (len(gen), len(genc)))
    ncfg = count_uniform_from_cases(gen)
    ctx.log("uniformity counted on TLC's terminal states: %d configurations, every k-subset equally often" % ncfg)
    rc, wout = res["warm"]
    if rc != 0:
        raise vlib.Inconclusive("harness does not build:\n" + wout[-3000:])

    # 2. spec -> code
    cases, stats = build_cases(ctx, gen, genc)
    cp = ctx.path("cases.ndjson")
    vlib.write_ndjson(cp, cases)
    ctx.log("driver input: %s" % stats)
    trace, out = ctx.godriver("c15", "TestC15", cases=cp, timeout=600 if q else 3000)
    recs = vlib.read_ndjson(trace)
    if len(recs) != len(cases):
        raise vlib.Inconclusive("driver produced %d records for %d cases" % (len(recs), len(cases)))
    rounds = [r for r in recs if r["kind"] == "round"]
    unj = sum(1 for r in rounds if not r["judged"])
    if unj > max(3, len(rounds) // 100):
        raise vlib.Inconclusive("%d of %d rounds had measurement noise above the grid tolerance" % (unj, len(rounds)))
    ctx.log("driver: %d records (%d rounds, %d not judged for noise)" % (len(recs), len(rounds), unj))

    corrupt(ctx, recs)
    # 3. code -> spec: monitor decides, strict reports drift.  A violation ends a
    # TLC run; the offending record (its whole group) is cut out and the rest is
    # validated again, so one finding does not hide the others.
    pp = ctx.path("cur.ndjson")
    vlib.write_ndjson(pp, recs)
    invs = MON_INVARIANTS[:]
    nval = len(recs)
    while invs:
        cfgname = "MultipathTrace_mon.cfg"
        if len(invs) != len(MON_INVARIANTS):
            cfgname = "MultipathTrace_mon_%d.cfg" % len(invs)
            with open(os.path.join(ctx.specdir(), cfgname), "w") as f:
                f.write("SPECIFICATION TSpec\nINVARIANTS %s\n" % " ".join(invs))
        ok, l, inv, tout = ctx.validate("MultipathTrace", cfgname, pp, timeout=900)
        if ok:
            break
        if not l or inv not in invs:
            raise vlib.Inconclusive("monitor failed without a usable trace position (%s):\n%s" % (inv, tout[-2000:]))
        bad = recs[l - 1]
        ctx.violation("C15 %s %s" % (inv, bad["kind"]),
                      "recorded %s violates %s: %s" % (bad["kind"], inv,
                                                      {k: bad[k] for k in bad if not k.startswith("exp_")}), bad)
        nval -= 1
        invs.remove(inv)   # one witness per clause; go on with the other clauses
    if not ctx.violations:
        ok, l, inv, tout = ctx.validate("MultipathTrace", "MultipathTrace_strict.cfg", pp, timeout=900)
        if not ok:
            ctx.drift.append("record %s is not what Multipath.tla computes (%s)" %
                             (recs[l - 1] if l else "?", inv))
    kinds = {}
    for r in recs:
        kinds[r["kind"]] = kinds.get(r["kind"], 0) + 1
    distinct = len({(r["nc"], tuple(r["offered"]), tuple(r["mode"]), tuple(r["exp_rng"]), tuple(r["scripted"]))
                    for r in rounds})
    ctx.cov.update(
        evaluations=len(recs), distinct_nontrivial=distinct, exhaustive=True,
        rule="rounds enumerated by TLC (<= 3 clients, <= 4 offered paths with repeated fingerprints, every "
             "client fresh / interleaved on an offered, shared or withdrawn fingerprint, every RandIntn result "
             "sequence; completion orders, failures and cancellation for <= 3 paths) replayed on the real "
             "MeasureClockOffsetSCION over loopback responders with crypto/rand.Reader scripted; quick: one rng "
             "sequence per configuration plus complete word enumerations (uniformity groups) for sampled "
             "configurations, thorough: all; plus crypto.Sample word enumerations and RandIntn boundary words; "
             "distinct = distinct (configuration, rng, failure script)",
        traces_validated_against_impl=nval, records_by_kind=kinds, driver_input=stats,
        unjudged_rounds=unj,
        samples=[rounds[0], rounds[len(rounds) // 2], rounds[-1]] +
                [r for r in recs if r["kind"] == "sample"][:1] + [r for r in recs if r["kind"] == "word"][:2])
    ctx.assumptions += [
        "the 2^-31 bound at word size 32 is inferred: TLC counts RandIntn's accepted words exhaustively for W = 4..8 "
        "(quick) / 4..9 (thorough) (every residue q or q-1 words, only residue t short), the real RandIntn is "
        "compared with the W = 32 instance of the same formula on boundary words (t-1, t, t+1, 0, 2^32-1) only",
        "uniformity on the real code is a counting statement: complete enumerations of word tuples that are uniform "
        "modulo lcm(1..n) are fed through the scripted reader and every k-subset must be selected equally often",
        "a participant whose measurement fails contributes the zero value (the slot of ms it never filled)",
        "responders are harness goroutines answering through the real server handler on clocks real+theta "
        "(process clock shifted by -16 s so that negative thetas are representable); offsets are mapped to "
        "half-second model units with 200 ms tolerance, rounds above it are retried and otherwise not judged",
        "clients are put into interleaved mode with the verif projection setter, not by three real exchanges",
    ]
