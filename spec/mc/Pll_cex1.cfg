SPECIFICATION Spec
CONSTANTS
  U = 1000
  OneMs = 2
  OffMax = 20
  PB = 500000
  SatSecs = 2001
  Advs <- AdvsSmall
  Offs <- OffsSmall
  Weights <- WeightsSmall
  AllowSat = FALSE
  BumpDen = 2
  InitClkEpochs = {0, 1}
  MaxLen = 6
  RawMags <- RawMagsOne
  StepUsesDoubleInv = TRUE
  DurationWraps = FALSE
  Jumps <- JumpsSmall
  StepAt = {1, 2, 3}
  MaxInDo = 0
  ReadsNowFirst = FALSE
  StepDen = 4
VIEW ViewCore
INVARIANTS TypeOK
PROPERTIES C19Step LemmaStep
