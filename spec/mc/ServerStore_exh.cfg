SPECIFICATION Spec
CONSTANTS
  Clients = {"a", "b"}
  Listeners = {"l1", "l2"}
  TMax = 2
  ItemCap = 2
  Cap = 2
  MaxOps = 4
  StrictTx = TRUE
VIEW view
INVARIANTS Bounded HeapValid QvalDominates QvalExact
PROPERTIES EvictionProp ReplyRxProp ReplyShapeProp LostTxDroppedProp NoCrossClientProp KernelTxWinsProp RecordedTxLaterProp UpdateLocalProp HandleLocalProp
