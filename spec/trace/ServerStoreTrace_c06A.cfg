SPECIFICATION TSpec
CONSTANTS
  Clients = {"a", "b", "c"}
  Listeners = {"l1", "l2", "l3", "g0", "g1", "g2", "g3", "g4", "g5", "g6", "g7", "g8", "g9", "g10", "g11", "g12", "g13", "g14", "g15"}
  TMax = 0
  ItemCap = 8
  Cap = 1048576
  MaxOps = 0
  StrictTx = TRUE
INVARIANTS TNoPanic
PROPERTIES TReplyRxProp TReplyShapeProp TNoCrossClientProp TKernelTxWinsProp TRecordedTxLaterProp TLostTxDroppedProp TStaleUpdateNoEffectProp TUpdateLocalProp THandleLocalProp
POSTCONDITION Consumed
