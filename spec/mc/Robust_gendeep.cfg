SPECIFICATION Spec
CONSTANTS
  Kinds <- KindsAll
  MaxExt = 3
  MaxExtCli = 3
  MaxKe = 2
  MaxCases = 1
  Wide = TRUE
  ExtLenZeroLoops = TRUE
  NonceLenUnchecked = TRUE
  CookieDecodeUnchecked = TRUE
  PacketOverflowUnchecked = TRUE
  ShortUniqueIdEchoed = TRUE
  CsptpShortDatagram = TRUE
INVARIANTS Emit
