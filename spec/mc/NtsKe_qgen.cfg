SPECIFICATION GSpec
CONSTANTS
  Transport = "quic"
  ResidueAfterFailure = TRUE
  ShortCookieRead = TRUE
  DialResetsData = FALSE
  Alpns <- AlpnsQuic
  Alphabet <- AlphaAll
  CutRecs <- CutCore
  MaxRecs = 2
  MaxDials = 1
  MaxCalls = 1
  MaxStore = 0
INVARIANTS Emit RunAgrees
