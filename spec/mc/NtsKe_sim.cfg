SPECIFICATION SSpec
CONSTANTS
  Transport = "tls"
  ResidueAfterFailure = TRUE
  ShortCookieRead = TRUE
  DialResetsData = TRUE
  Alpns <- AlpnsTls
  Alphabet <- AlphaWalk
  CutRecs <- CutAll
  MaxRecs = 6
  MaxDials = 3
  MaxCalls = 6
  MaxStore = 2
  CtxMode = "ignored"
  MaxStalls = 2
  StaleNextHop = FALSE
  Tails = TRUE
  Vias <- ViasAny
INVARIANTS Emit RunAgrees
