SPECIFICATION TSpec
INVARIANTS MonitorReport
