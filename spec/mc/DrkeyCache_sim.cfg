SPECIFICATION SpecSim
CONSTANTS
  Metas <- MetasSim
  DHosts <- DH2
  Vals <- ValsDeep
  E = 2
  NEpochs = 3
  MockModes <- Both
  H6 = 2
  Gaps <- GapsMock
  Horizon = 12
  MaxCalls = 9999
  HHMetas <- MetasSim
  HHVals <- ValsDeep
  GenLen = 20
INVARIANTS EmitSim
