-------------------------- MODULE NtsPacketAssocMC --------------------------
(***************************************************************************)
(* Model-checking wrapper for NtsPacketAssoc (C10, several associations).  *)
(*   NtsPacketAssoc_exh.cfg    quick: 2 clients x 2 requests x 2 datagrams,*)
(*                             every kind of datagram, every interleaving  *)
(*                             of the clients' steps (the server's step    *)
(*                             directly follows the send: ServeEager)      *)
(*   NtsPacketAssoc_deep.cfg   thorough: the same with the server's step   *)
(*                             interleaved freely as well                  *)
(*   NtsPacketAssoc_exh3.cfg   thorough: 3 clients x 1 request             *)
(*   NtsPacketAssoc_f_*.cfg    fault switches: the named clause must FAIL  *)
(*     _f_sharedid / _f_sharedid2  one identifier buffer for all clients:  *)
(*                             OutstandingId / Complete                    *)
(*     _f_storefirst           cookies stored before the identifier        *)
(*                             comparison: RejectedInert                   *)
(*     _f_nouid                no identifier comparison: OutstandingId     *)
(* The behaviour generator is NtsPacketAssocGen.                           *)
(***************************************************************************)
EXTENDS NtsPacketAssoc

KindsAll  == {"genuine", "otherid", "foreign", "swapkey", "swapdir"}
=============================================================================
