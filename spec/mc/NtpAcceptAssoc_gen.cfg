SPECIFICATION ASpec
CONSTANTS
  Nts = TRUE
  MaxArrivals = 2
INVARIANTS AOnlyGenuine NoOffsetAfterFailedExchange NoPlainRequest AEmit
