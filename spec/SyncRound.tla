------------------------------ MODULE SyncRound ------------------------------
(***************************************************************************)
(* The synchronization loop of core/sync/sync.go (Run,                     *)
(* measureOffsetToRefClks) together with the collection of measurements    *)
(* in core/client/client.go (ReferenceClockClient.MeasureClockOffsets,     *)
(* collectMeasurements).  Property C01: the per-round correction handed to *)
(* the clock discipline is bounded whatever the sources report.            *)
(*                                                                         *)
(* Numbers.  Offsets are W-bit two's-complement integers (Go: int64 ns)    *)
(* with the wrap-around / truncating arithmetic of Midpoint.tla.  Impact   *)
(* factors are rationals given in quarters (ri4 = 4 x ReferenceClockImpact)*)
(* so that the float64 products of the code are modelled exactly:          *)
(*     refClkMaxCorr = ri4/4 * Drift(SyncInterval),  Drift(d) = drift * d  *)
(* `float64(|x|) > cap` is `4*|x| > ri4*D` and `Duration(sgn * cap)` is    *)
(* sgn * trunc(ri4*D/4).                                                   *)
(***************************************************************************)
EXTENDS Integers, Sequences, FiniteSets, TLC

CONSTANTS W,          \* word size of the modelled Duration (Go: 64)
          NRef,       \* largest number of reference clocks
          NPeer,      \* largest number of peers (the local clock is extra)
          Vals,       \* offsets a source may report
          Cfgs,       \* configurations (admissible and inadmissible)
          MaxRound,   \* rounds per behaviour
          FailKinds,  \* subset of {"err", "late", "never"}
          AnyOrder,   \* TRUE: successes arrive in any order; FALSE: by index
          Canon,      \* TRUE: one outcome vector per multiset (sources are
                      \* interchangeable: the next state depends on the multiset only)
          Elapse      \* what the local clock may do during one clk.Sleep call: records
                      \* [slp, stp] in HALF sync intervals (see "local clock" below)

MP == INSTANCE Midpoint WITH W <- W, Vals <- {}, MaxN <- 0, s <- << >>

H == 2 ^ (W - 1)
Sgn(x) == IF x < 0 THEN -1 ELSE IF x > 0 THEN 1 ELSE 0
\* time.Duration.Abs(): the most negative value maps to the largest one
AbsD(x) == IF x = -H THEN H - 1 ELSE IF x < 0 THEN -x ELSE x

(***************************************************************************)
(* Configuration: [nref, npeer, ri4, pi4, cutoff, interval, timeout, drift]*)
(* cutoff, interval and timeout are time.Durations: W-bit words, ANY of    *)
(* them (the whole range -H .. H-1 is configurable; nothing but Run's      *)
(* prologue stands between a configuration file and the loop).  The        *)
(* prologue is transcribed with the machine's arithmetic: `/` truncates    *)
(* towards zero (MP!TDiv2), `+ - *` on Durations wrap (MP!Wrap).  The form *)
(* the code uses, timeout > interval/2, contains no operation that can     *)
(* wrap; the statement's "timeout above half the interval" is read over    *)
(* the integers (StatedInadmissible: 2*timeout > interval, no word).       *)
(***************************************************************************)
DriftOf(c) == c.drift * c.interval            \* clk.Drift(cfg.SyncInterval)
RefCap4(c)  == c.ri4 * DriftOf(c)             \* 4 x refClkMaxCorr
PeerCap4(c) == c.pi4 * DriftOf(c)             \* 4 x peerClkMaxCorr

DurationsAreWords(c) == c.cutoff \in MP!Word /\ c.interval \in MP!Word /\ c.timeout \in MP!Word

\* cfg.SyncTimeout < 0 || cfg.SyncTimeout > cfg.SyncInterval/2
TimeoutPanics(c) == c.timeout < 0 \/ c.timeout > MP!TDiv2(c.interval)

\* Run's prologue, condition by condition (a TRUE disjunct is a panic)
Panics(c) ==
  \/ c.ri4 <= 4                                   \* ReferenceClockImpact <= 1.0
  \/ c.pi4 <= 4                                   \* PeerClockImpact <= 1.0
  \/ c.pi4 - 4 <= c.ri4                           \* PeerClockImpact-1.0 <= ReferenceClockImpact
  \/ c.interval <= 0                              \* SyncInterval <= 0
  \/ TimeoutPanics(c)
  \/ RefCap4(c) <= 0                              \* "unexpected system clock behavior"
  \/ PeerCap4(c) <= 0
Admissible(c) == ~Panics(c)

\* what the property statement lists as voiding the bound (over the integers)
StatedInadmissible(c) ==
  \/ c.ri4 <= 4 \/ c.pi4 <= 4
  \/ c.pi4 - c.ri4 <= 4
  \/ c.interval <= 0
  \/ 2 * c.timeout > c.interval

\* Facts about the timeout test over the WHOLE word range (checked as ASSUMEs
\* of the model: every pair of words).  The truncating form is the statement;
\* a form that doubles the timeout in the machine word is not: it differs
\* exactly on the upper half of the range (2*t wraps to a negative number).
HalfFormIsStatement ==
  \A i \in MP!Word : \A t \in MP!Word :
     (i > 0 /\ t >= 0) => ((t > MP!TDiv2(i)) <=> (2 * t > i))
DoubledFormDiffers(i, t) == (MP!Wrap(2 * t) > i) # (2 * t > i)
DoubledFormWrapsOnUpperHalf ==
  \A i \in MP!Word : \A t \in MP!Word :
     (i > 0 /\ t >= 0) => (DoubledFormDiffers(i, t) <=> t >= H \div 2)

(***************************************************************************)
(* One loop body, as pure operators.                                       *)
(***************************************************************************)
\* if float64(x.Abs()) > cap { x = Duration(float64(Sgn(x)) * cap) }
Clamp(x, cap4) == IF 4 * AbsD(x) > cap4 THEN Sgn(x) * (cap4 \div 4) ELSE x

RefCorrOf(c, ro)  == Clamp(ro, RefCap4(c))
RefOkOf(c)        == c.nref # 0
PeerExceeds(c, po) == AbsD(po) > c.cutoff
PeerCorrOf(c, po) == IF PeerExceeds(c, po) THEN Clamp(po, PeerCap4(c)) ELSE po
PeerOkOf(c, po)   == PeerExceeds(c, po) /\ c.npeer # 0
CorrOf(c, ro, po) ==
  LET rok == RefOkOf(c)  pok == PeerOkOf(c, po)
      rc == RefCorrOf(c, ro)  pc == PeerCorrOf(c, po)
  IN IF rok /\ ~pok THEN rc
     ELSE IF ~rok /\ pok THEN pc
     ELSE IF rok /\ pok THEN MP!Mid(rc, pc)
     ELSE 0

\* number of entries of the measurement slice of a kind
NSlots(c, kind) == IF kind = "ref" THEN c.nref
                   ELSE IF c.npeer # 0 THEN c.npeer + 1 ELSE 0   \* + localReferenceClock

Ok(v)   == [k |-> "ok", v |-> v]
Fail(k) == [k |-> k, v |-> 0]
Outcomes == {Ok(v) : v \in Vals} \cup {Fail(k) : k \in FailKinds}

\* outcome vectors of one round for one kind; the local clock (last peer
\* entry) answers 0 at once and without error
OKey(x) == IF x.k = "ok" THEN x.v ELSE IF x.k = "err" THEN H ELSE IF x.k = "late" THEN H + 1 ELSE H + 2
IsCanon(o, m) == \A i \in 1 .. (m - 1) : OKey(o[i]) <= OKey(o[i + 1])
OutcomeVecs(c, kind) ==
  LET n == NSlots(c, kind)
      m == IF kind = "ref" THEN n ELSE n - 1        \* scripted sources
  IN {o \in [1 .. n -> Outcomes] : /\ (kind = "peer" /\ n # 0) => o[n] = Ok(0)
                                   /\ Canon => IsCanon(o, m)}

OkSet(o) == {i \in DOMAIN o : o[i].k = "ok"}
Perms(S) == {p \in [1 .. Cardinality(S) -> S] : \A i, j \in DOMAIN p : i # j => p[i] # p[j]}
IndexOrder(S) == CHOOSE p \in Perms(S) : \A i, j \in DOMAIN p : i < j => p[i] < p[j]
Arrivals(o) == IF AnyOrder THEN Perms(OkSet(o)) ELSE {IndexOrder(OkSet(o))}

\* collectMeasurements: error-free results are stored at ms[0], ms[1], ... in
\* the order they arrive; entries behind them keep their old content
Collect(slots, o, ord) ==
  [i \in 1 .. Len(slots) |-> IF i <= Len(ord) THEN o[ord[i]].v ELSE slots[i]]

AllSmall(sl) == \A i \in DOMAIN sl : MP!Small(sl[i])

(***************************************************************************)
(* The local clock as Run sees it (timebase.SystemClock: Now, Epoch,       *)
(* Sleep).  It is the clock that is being disciplined and it belongs to    *)
(* the environment: clk.Sleep(SyncInterval) returns after slp half         *)
(* intervals of real time (2 = on time; never early, anything later: a     *)
(* stalled process, a suspended host) and meanwhile the reading clk.Now()  *)
(* is stepped by stp half intervals (forwards or backwards; by the         *)
(* discipline itself or by an operator), which is what advances            *)
(* clk.Epoch().  Run reads neither Now() nor Epoch(): `now` and `epoch`    *)
(* influence nothing below, and the property does not mention them - its   *)
(* bound is a function of the CONFIGURED interval.  The environment is     *)
(* spelled out so that the property section is evaluated, and behaviours   *)
(* are generated, for rounds that follow an arbitrary jump of the clock.   *)
(***************************************************************************)
ElapseChoices == Elapse          \* (an operator, so that generators can sample it)
OnTime == [slp |-> 2, stp |-> 0]
\* how far the reading moved across the Sleep call, in half intervals
ReadingDelta(e) == e.slp + e.stp

(***************************************************************************)
(* State.                                                                  *)
(***************************************************************************)
VARIABLES cfg,        \* the Config, the source counts and the clock's drift
          phase,      \* "boot" | "panicked" | "measure" | "combine" | "adjusting" | "adjusted" | "asleep"
          round,      \* completed Sleep calls
          refSlots,   \* refClkOffsets  (offsets only; survives across rounds)
          peerSlots,  \* peerClkOffsets (last entry belongs to the local clock)
          refDone, peerDone,   \* the round's two goroutines have delivered
          refOff, peerOff,     \* what they delivered (after FaultTolerantMidpoint)
          refCorr, peerCorr,   \* refClkCorr / peerClkCorr after the clamps
          refOk, peerOk,       \* refClkOk / peerClkOk: the side takes part in the switch
          corr,       \* argument of adj.Do
          ndo,        \* adj.Do calls since the last clk.Sleep returned
          adjLog,     \* history: every argument of adj.Do
          cur,        \* history: this round's outcomes and arrival orders, and what
                      \* the clock did during the Sleep call that preceded the round
          hist,       \* history: one record per completed round
          now,        \* environment: clk.Now() in half intervals since Run was called
                      \* (the time the measurements themselves take is left out)
          epoch       \* environment: clk.Epoch()

vars == <<cfg, phase, round, refSlots, peerSlots, refDone, peerDone, refOff, peerOff,
          refCorr, peerCorr, refOk, peerOk, corr, ndo, adjLog, cur, hist, now, epoch>>
\* everything that determines the future (VIEW of the exhaustive configurations);
\* the clock's reading and epoch do not: no action's effect on the other
\* variables depends on them
View == <<cfg, phase, round, refSlots, peerSlots, refDone, peerDone, refOff, peerOff,
          refCorr, peerCorr, refOk, peerOk, corr, ndo>>

NoCur == [ref |-> << >>, rord |-> << >>, peer |-> << >>, pord |-> << >>, slp |-> 0, stp |-> 0]

Init ==
  /\ cfg \in Cfgs
  /\ phase = "boot" /\ round = 0
  /\ refSlots = << >> /\ peerSlots = << >>
  /\ refDone = FALSE /\ peerDone = FALSE
  /\ refOff = 0 /\ peerOff = 0 /\ refCorr = 0 /\ peerCorr = 0 /\ corr = 0
  /\ refOk = FALSE /\ peerOk = FALSE
  /\ ndo = 0 /\ adjLog = << >> /\ cur = NoCur /\ hist = << >>
  /\ now = 0 /\ epoch = 0

\* Run's prologue: panics, or allocates the two slices (zero Measurements)
Boot ==
  /\ phase = "boot"
  /\ IF Panics(cfg)
     THEN phase' = "panicked" /\ UNCHANGED <<refSlots, peerSlots>>
     ELSE /\ phase' = "measure"
          /\ refSlots'  = [i \in 1 .. NSlots(cfg, "ref")  |-> 0]
          /\ peerSlots' = [i \in 1 .. NSlots(cfg, "peer") |-> 0]
  /\ UNCHANGED <<cfg, round, refDone, peerDone, refOff, peerOff, refCorr, peerCorr,
                 refOk, peerOk, corr, ndo, adjLog, cur, hist, now, epoch>>

\* One of the round's two goroutines, from `go func()` to the channel send.
\* The two share no data, so each is one atomic step and they may run in
\* either order.  Sources that fail ("err"), answer after the deadline
\* ("late") or not at all ("never") leave the slice alone; the successes go to
\* the front; FaultTolerantMidpoint then sorts the WHOLE slice in place.
MeasureRef ==
  /\ phase = "measure" /\ ~refDone
  /\ IF NSlots(cfg, "ref") = 0
     THEN refOff' = 0 /\ UNCHANGED <<refSlots, cur>>
     ELSE \E o \in OutcomeVecs(cfg, "ref") : \E ord \in Arrivals(o) :
            LET ms == Collect(refSlots, o, ord)
            IN /\ refSlots' = MP!Sort(ms)
               /\ refOff' = MP!FTM(ms)
               /\ cur' = [cur EXCEPT !.ref = o, !.rord = ord]
  /\ refDone' = TRUE
  /\ UNCHANGED <<cfg, phase, round, peerSlots, peerDone, peerOff, refCorr, peerCorr,
                 refOk, peerOk, corr, ndo, adjLog, hist, now, epoch>>

MeasurePeer ==
  /\ phase = "measure" /\ ~peerDone
  /\ IF NSlots(cfg, "peer") = 0
     THEN peerOff' = 0 /\ UNCHANGED <<peerSlots, cur>>
     ELSE \E o \in OutcomeVecs(cfg, "peer") : \E ord \in Arrivals(o) :
            LET ms == Collect(peerSlots, o, ord)
            IN /\ peerSlots' = MP!Sort(ms)
               /\ peerOff' = MP!FTM(ms)
               /\ cur' = [cur EXCEPT !.peer = o, !.pord = ord]
  /\ peerDone' = TRUE
  /\ UNCHANGED <<cfg, phase, round, refSlots, refDone, refOff, refCorr, peerCorr,
                 refOk, peerOk, corr, ndo, adjLog, hist, now, epoch>>

\* refClkOff, peerClkOff := <-refClkOffCh, <-peerClkOffCh
Receive ==
  /\ phase = "measure" /\ refDone /\ peerDone
  /\ phase' = "combine"
  /\ UNCHANGED <<cfg, round, refSlots, peerSlots, refDone, peerDone, refOff, peerOff,
                 refCorr, peerCorr, refOk, peerOk, corr, ndo, adjLog, cur, hist, now, epoch>>

\* clamps, cutoff test, switch
Combine ==
  /\ phase = "combine"
  /\ refCorr'  = RefCorrOf(cfg, refOff)
  /\ peerCorr' = PeerCorrOf(cfg, peerOff)
  /\ refOk'  = RefOkOf(cfg)
  /\ peerOk' = PeerOkOf(cfg, peerOff)
  /\ corr' = CorrOf(cfg, refOff, peerOff)
  /\ phase' = "adjusting"
  /\ UNCHANGED <<cfg, round, refSlots, peerSlots, refDone, peerDone, refOff, peerOff,
                 ndo, adjLog, cur, hist, now, epoch>>

\* adj.Do(corr)
Adjust ==
  /\ phase = "adjusting"
  /\ ndo' = ndo + 1
  /\ adjLog' = Append(adjLog, corr)
  /\ phase' = "adjusted"
  /\ UNCHANGED <<cfg, round, refSlots, peerSlots, refDone, peerDone, refOff, peerOff,
                 refCorr, peerCorr, refOk, peerOk, corr, cur, hist, now, epoch>>

\* clk.Sleep(cfg.SyncInterval) is entered
Sleep ==
  /\ phase = "adjusted"
  /\ phase' = "asleep"
  /\ round' = round + 1
  /\ hist' = Append(hist, [ref |-> cur.ref, rord |-> cur.rord, peer |-> cur.peer, pord |-> cur.pord,
                           slp |-> cur.slp, stp |-> cur.stp,
                           rs |-> refSlots, ps |-> peerSlots, ro |-> refOff, po |-> peerOff,
                           rc |-> refCorr, pc |-> peerCorr, corr |-> corr,
                           small |-> AllSmall(refSlots) /\ AllSmall(peerSlots)])
  /\ UNCHANGED <<cfg, refSlots, peerSlots, refDone, peerDone, refOff, peerOff,
                 refCorr, peerCorr, refOk, peerOk, corr, ndo, adjLog, cur, now, epoch>>

\* clk.Sleep returns - whenever the environment lets it, with whatever it did
\* to the clock's reading meanwhile; next iteration of `for`
Wake ==
  /\ phase = "asleep" /\ round < MaxRound
  /\ phase' = "measure"
  /\ refDone' = FALSE /\ peerDone' = FALSE
  /\ ndo' = 0
  /\ \E e \in ElapseChoices :
       /\ cur' = [NoCur EXCEPT !.slp = e.slp, !.stp = e.stp]
       /\ now' = now + ReadingDelta(e)
       /\ epoch' = IF e.stp # 0 THEN epoch + 1 ELSE epoch
  \* refClkOff, peerClkOff, refClkCorr, peerClkCorr, corr are locals of the loop body
  /\ refOff' = 0 /\ peerOff' = 0 /\ refCorr' = 0 /\ peerCorr' = 0 /\ corr' = 0
  /\ refOk' = FALSE /\ peerOk' = FALSE
  /\ UNCHANGED <<cfg, round, refSlots, peerSlots, adjLog, hist>>

Next == Boot \/ MeasureRef \/ MeasurePeer \/ Receive \/ Combine \/ Adjust \/ Sleep \/ Wake
Spec == Init /\ [][Next]_vars

(***************************************************************************)
(* Property section (C01).  Uses only what the statement mentions: the     *)
(* configuration, the offsets the two sides reported, their bounded        *)
(* contributions, the correction handed to adj.Do and the Do/Sleep calls.  *)
(***************************************************************************)
Decided == phase \in {"adjusting", "adjusted", "asleep"}     \* corr has been computed
\* The statement says "contributes" without saying when a side does, beyond
\* "a peer offset within the cutoff contributes nothing".  The code decides it
\* in refClkOk / peerClkOk (today: the side has sources, and for the peers the
\* offset is beyond the cutoff) and logs both; a change that lets a side sit
\* out a round in which none of its sources answered keeps every clause (a
\* property-preserving patch of that kind was alarmed on while RefContrib was
\* "cfg.nref # 0"), so contribution is what the switch used.
RefContrib   == refOk
PeerContrib  == peerOk
WithinCutoff == AbsD(peerOff) <= cfg.cutoff

\* |corr| <= impact factor x drift x interval (peer factor when the peer
\* contributes, reference factor otherwise; the peer factor is the larger one)
Bound == Decided =>
  /\ 4 * AbsD(corr) <= (IF PeerContrib /\ ~WithinCutoff THEN PeerCap4(cfg) ELSE RefCap4(cfg))
  /\ 4 * AbsD(corr) <= PeerCap4(cfg)
RefPart  == (Decided /\ RefContrib)  => 4 * AbsD(refCorr)  <= RefCap4(cfg)
PeerPart == (Decided /\ PeerContrib) => 4 * AbsD(peerCorr) <= PeerCap4(cfg)
\* a peer offset within the cutoff contributes nothing, whatever the flag says
\* (and so does a peer side that sits out)
WithinCutoffContributesNothing ==
  (Decided /\ (WithinCutoff \/ ~PeerContrib)) => corr = (IF RefContrib THEN refCorr ELSE 0)
SoleContribution ==
  (Decided /\ PeerContrib /\ ~WithinCutoff /\ ~RefContrib) => corr = peerCorr
\* the statement does not fix the rounding of an odd sum
IsMidpoint(m, x, y) == 2 * m - (x + y) \in {-1, 0, 1}
MidpointWhenBoth ==
  (Decided /\ RefContrib /\ PeerContrib /\ ~WithinCutoff) => IsMidpoint(corr, refCorr, peerCorr)

\* exactly one Do call between consecutive Sleep calls
OneAdjust ==
  /\ phase = "asleep" => ndo = 1
  /\ phase \in {"measure", "combine", "adjusting"} => ndo = 0
OneAdjustPerRound ==
  [][(phase # "asleep" /\ phase' = "asleep") => (ndo' = 1 /\ Len(adjLog') = round')]_vars

\* settings that void the bound never reach the loop
Refused == StatedInadmissible(cfg) => phase \in {"boot", "panicked"}

(***************************************************************************)
(* Facts about the specification itself (not part of C01).                 *)
(***************************************************************************)
TypeOK ==
  /\ phase \in {"boot", "panicked", "measure", "combine", "adjusting", "adjusted", "asleep"}
  /\ round \in 0 .. MaxRound
  /\ now \in Int /\ epoch \in 0 .. MaxRound
  /\ \A e \in ElapseChoices : e.slp >= 2          \* Sleep does not return early
  /\ \A i \in DOMAIN refSlots : refSlots[i] \in MP!Word
  /\ \A i \in DOMAIN peerSlots : peerSlots[i] \in MP!Word
  /\ corr \in MP!Word /\ refOff \in MP!Word /\ peerOff \in MP!Word
\* every start-up condition of the statement is one the code tests
StatedImpliesPanics == \A c \in Cfgs : StatedInadmissible(c) => Panics(c)
RefusedExact == phase # "boot" => (Panics(cfg) <=> phase = "panicked")
\* the arrival order of the successes does not matter: the slice is sorted
OrderImmaterial ==
  phase = "measure" =>
    \A o \in OutcomeVecs(cfg, "ref") : \A p, q \in Perms(OkSet(o)) :
       MP!Sort(Collect(refSlots, o, p)) = MP!Sort(Collect(refSlots, o, q))
=============================================================================
