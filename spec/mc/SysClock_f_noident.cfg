SPECIFICATION Spec
CONSTANTS
  QPS = 4
  G = 4
  DPS = 4
  Variant = "noident"
  AdjOffs <- OffsExh
  AdjDurs <- DursExh
  AdjFreqs <- FreqsExh
  StepOffs <- StepsExh
  Deltas <- DeltaExh
  DoOffs <- None
  DoStats <- None
  MaxOps = 3
  MaxAdv = 3
  DoAtomic = TRUE
  KeepHist = FALSE
  EpochReads = TRUE
  MaxLen = 0
INVARIANTS SupersededSilent
