package c03

import (
	"math/rand"
	"os"
	"net/netip"
	"testing"
	"time"

	"example.com/scion-time/net/ntp"

	"verif/harness/internal/vio"
)

// one move of a TLC-generated schedule (NtpExchangeGen.hist)
type mname struct {
	Kind string `json:"kind"`
	Ex   int    `json:"ex"`
	Copy int    `json:"copy"`
	H    int    `json:"h"`
}
type move struct {
	A    string `json:"a"`
	Ex   int    `json:"ex"`
	M    mname  `json:"m"`
	H    int    `json:"h"`
	Lost bool   `json:"lost"`
	T    int    `json:"t"`
	Res  string `json:"res"`
}

// record layout for NtpExchangeTrace.tla
type rec struct {
	Ev   string `json:"ev"` // "reset" | "accept" | "recv" | "end"
	Ex   int    `json:"ex"` // client attempt (1-based) that consumed the datagram
	Want string `json:"want"` // outcome predicted by the schedule ("" if none)
	Got  string `json:"got"`  // ok | skip | error | ignored | timeout
	Il   bool   `json:"il"`
	// identification of the four timestamps the reported offset was computed from
	T0ex int    `json:"t0ex"` // attempt whose request's kernel tx time is t0 (0 = unknown)
	T1h  int    `json:"t1h"`  // server handling whose receive time is t1
	T1ex int    `json:"t1ex"` // ... and the attempt whose request it handled
	T2h  int    `json:"t2h"`
	T2r  string `json:"t2r"` // "sTx" kernel, "sTx0" software, "" unknown
	T3ex int    `json:"t3ex"`
	Win0 bool   `json:"win0"` // t0 lies in the send window of attempt T0ex
	Win3 bool   `json:"win3"` // t3 lies in the delivery window of the datagram accepted in attempt T3ex
	Reco bool   `json:"reco"` // reported offset = ClockOffset(t0,t1,t2,t3) within 3 ns
	Err  int    `json:"err"`  // reported offset - true offset of handling T1h (ns, clamped)
	Rtd  int    `json:"rtd"`  // reported round-trip delay (ns, clamped)
	Beh  int    `json:"beh"`
	Tr   string `json:"tr"` // transport of the behaviour ("ip" | "scion"), on reset records
}

const clampNs = 2_000_000_000

func clamp(d time.Duration) int {
	if d > clampNs {
		return clampNs
	}
	if d < -clampNs {
		return -clampNs
	}
	return int(d)
}

type attempt struct {
	ex      int
	arr     Arrival
	req     ntp.Packet
	acc     bool
	accCTx  ntp.Time64 // prev.cTxTime / cRxTime recorded after acceptance
	accCRx  ntp.Time64
	delAt   time.Time // kernel tx time of the delivery of the accepted datagram
	rec     bool      // accCTx/accCRx recorded (when the client's next request arrived)
	prevEv  time.Time // harness kernel time of the last event of the client before this request arrived
	nextArr time.Time // arrival of the client's next request (zero: none yet)
}

type inflight struct {
	b   []byte
	dst netip.AddrPort
	h   int
}

// slack for comparing timestamps taken at different points of the same clock
// (kernel software timestamps and time.Now() are both CLOCK_REALTIME)
const slack = 200 * time.Microsecond

// real 3.1 s waits left for "idle" moves in this run
var idleBudget = 2

func TestC03(t *testing.T) {
	scheds := vio.ReadCases[[]move](t)
	out := vio.Create(t)
	defer out.Close()
	rng := vio.Rand()
	if vio.Thorough() {
		idleBudget = 40
	}
	naccept, nbeh := 0, 0
	for bi, sc := range scheds {
		kind := "ip"
		if os.Getenv("VERIF_TRANSPORT") == "scion" || (os.Getenv("VERIF_TRANSPORT") == "" && bi%2 == 1) {
			kind = "scion"
		}
		n, err := NewNetFor(kind)
		if err != nil {
			t.Fatal(err)
		}
		out.Emit(rec{Ev: "reset", Beh: bi, Tr: kind})
		naccept += runSchedule(t, n, sc, bi, rng, out)
		out.Emit(rec{Ev: "end", Beh: bi})
		// let a running call finish before closing the sockets
		n.Wait(n.Timeout + 200*time.Millisecond)
		n.Close()
		nbeh++
	}
	t.Logf("C03: %d schedules, %d accepted measurements", nbeh, naccept)
	if naccept == 0 {
		t.Fatal("no measurement was accepted: harness is not exercising the client")
	}
}

// TestC03Reuse: the schedules of known finding C03-port-reuse (a delayed
// response reaches a later socket of the client because the ephemeral port is
// reused). Must run where the ephemeral port range is a single port.
func TestC03Reuse(t *testing.T) {
	scheds := vio.ReadCases[[]move](t)
	out := vio.Create(t)
	defer out.Close()
	rng := vio.Rand()
	for bi, sc := range scheds {
		for ki, kind := range []string{"ip", "scion"} {
			n, err := NewNetFor(kind)
			if err != nil {
				t.Fatal(err)
			}
			n.Timeout = 120 * time.Millisecond
			b := 2*bi + ki
			out.Emit(rec{Ev: "reset", Beh: b, Tr: kind})
			runSchedule(t, n, sc, b, rng, out)
			out.Emit(rec{Ev: "end", Beh: b})
			n.Wait(n.Timeout + 200*time.Millisecond)
			n.Close()
		}
	}
}

func pause(rng *rand.Rand) { time.Sleep(time.Duration(300+rng.Intn(1500)) * time.Microsecond) }

func runSchedule(t *testing.T, n *Net, sc []move, bi int, rng *rand.Rand, out *vio.Out) int {
	atts := map[int]*attempt{}   // by exchange number as counted here (arrival order)
	reqs := map[[2]int]*inflight{} // (ex, copy) -> request in flight
	resps := map[[2]int]*inflight{} // (h, copy) -> response in flight
	nex := 0
	lastEv := time.Now() // harness time of the last datagram handed to the client (or the start)
	var cur *attempt
	naccept := 0
	n.SetTheta(0)

	drainLogs := func() {
		for {
			select {
			case <-n.Logs:
			default:
				return
			}
		}
	}
	// waitArrival: next request datagram of the client (starting a call if needed)
	waitArrival := func() *attempt {
		n.Poll()
		if !n.Calling() {
			select {
			case a := <-n.Arrivals: // leftover of an earlier call: ignore
				_ = a
			default:
			}
			n.StartMeasure()
		}
		select {
		case a := <-n.Arrivals:
			nex++
			at := &attempt{ex: nex, arr: a, prevEv: lastEv}
			if p := atts[nex-1]; p != nil {
				p.nextArr = a.At
			}
			// the client built this request after finishing its previous attempts:
			// its interleaved-mode state now describes the last accepted exchange
			var last *attempt
			for _, x := range atts {
				if x.acc && (last == nil || x.ex > last.ex) {
					last = x
				}
			}
			if last != nil && !last.rec {
				pv := n.T.Prev()
				last.accCTx, last.accCRx, last.rec = pv.CTxTime, pv.CRxTime, true
			}
			pl, _, err := n.T.Unwrap(a.B)
			if err != nil {
				t.Fatalf("client sent an unparsable datagram: %v", err)
			}
			if err := ntp.DecodePacket(&at.req, pl); err != nil {
				t.Fatalf("client sent an undecodable request: %v", err)
			}
			atts[nex] = at
			reqs[[2]int{nex, 0}] = &inflight{b: a.B, dst: a.Src}
			return at
		case <-time.After(2 * time.Second):
			return nil
		}
	}

	for _, mv := range sc {
		pause(rng)
		switch mv.A {
		case "send":
			drainLogs()
			cur = waitArrival()
			if cur == nil {
				return naccept // client does not send any more (e.g. call still timing out)
			}
		case "idle":
			// more than 3 s pass. Only possible while the client is quiescent between
			// two calls (inside a call the next request is already on its way), and
			// only a few times per run because it costs real time; a skipped idle is
			// always sound (the schedule's prediction then differs: strict only).
			n.Poll()
			if n.Calling() || len(n.Arrivals) > 0 || idleBudget <= 0 {
				continue
			}
			idleBudget--
			time.Sleep(3100 * time.Millisecond)
		case "theta":
			n.SetTheta(time.Duration(mv.T) * 25 * time.Millisecond)
		case "dup":
			if mv.M.Kind == "req" {
				if q := reqs[[2]int{mv.M.Ex, 0}]; q != nil {
					reqs[[2]int{mv.M.Ex, 1}] = &inflight{b: q.b, dst: q.dst}
				}
			} else if r := resps[[2]int{mv.M.H, 0}]; r != nil {
				resps[[2]int{mv.M.H, 1}] = &inflight{b: r.b, dst: r.dst, h: r.h}
			}
		case "drop":
			if mv.M.Kind == "req" {
				delete(reqs, [2]int{mv.M.Ex, mv.M.Copy})
			} else {
				delete(resps, [2]int{mv.M.H, mv.M.Copy})
			}
		case "srecv":
			q := reqs[[2]int{mv.M.Ex, mv.M.Copy}]
			if q == nil {
				continue
			}
			delete(reqs, [2]int{mv.M.Ex, mv.M.Copy})
			h, err := n.ServerRecv(mv.M.Ex, q.b, q.dst)
			if err != nil {
				t.Fatalf("server side of the harness failed: %v", err)
			}
			if h.H != mv.H {
				// keep the schedule's numbering usable: remember under the schedule's h
				n.Handlings[mv.H] = h
			}
		case "stx":
			h := n.Handlings[mv.H]
			if h == nil || h.Sent {
				continue
			}
			if err := n.ServerTx(h, mv.Lost); err != nil {
				t.Fatalf("server tx failed: %v", err)
			}
			resps[[2]int{mv.H, 0}] = &inflight{b: h.Resp, dst: h.Dst, h: mv.H}
		case "timeout":
			// the client's call runs into its deadline; remaining attempts of the
			// call fail at once. Wait for the call to return and forget its leftovers.
			if !n.Wait(n.Timeout + 2*time.Second) {
				t.Fatalf("client call did not return after its deadline")
			}
			for len(n.Arrivals) > 0 {
				<-n.Arrivals
			}
			out.Emit(rec{Ev: "recv", Ex: exOf(cur), Want: "timeout", Got: "timeout", Beh: bi})
			cur = nil
		case "crecv":
			r := resps[[2]int{mv.M.H, mv.M.Copy}]
			if r == nil {
				continue
			}
			delete(resps, [2]int{mv.M.H, mv.M.Copy})
			drainLogs()
			delAt, err := n.Deliver(r.b, r.dst)
			if err != nil {
				t.Fatalf("deliver failed: %v", err)
			}
			lastEv = delAt
			got, lr := awaitReaction(n)
			seen := time.Now()
			rc := rec{Ev: "recv", Ex: exOf(cur), Want: mv.Res, Got: got, Beh: bi}
			if got == "ok" && cur != nil && r.dst == cur.arr.Src {
				rc.Ev = "accept"
				fillAccept(&rc, n, cur, atts, lr, delAt, seen)
				naccept++
			}
			out.Emit(rc)
			if got == "ok" || got == "error" || got == "panic" {
				cur = nil
			}
		}
	}
	return naccept
}

func exOf(a *attempt) int {
	if a == nil {
		return 0
	}
	return a.ex
}

type reaction struct {
	received LogRec
	eval     LogRec
}

// awaitReaction waits for the client's log records that tell what it did with
// the datagram just delivered.
func awaitReaction(n *Net) (string, reaction) {
	var r reaction
	deadline := time.After(120 * time.Millisecond)
	for {
		select {
		case lr := <-n.Logs:
			switch lr.Msg {
			case "received response":
				r.received = lr
			case "evaluated response":
				r.eval = lr
				return "ok", r
			case "received packet with unexpected type or structure", "received packet from unexpected source",
				"failed to decode packet payload", "failed to decode NTS packet", "failed to process NTS packet",
				"received packet to unexpected destination", "failed to handle packet", "failed to decode packet",
				"failed to authenticate packet":
				// some of these are logged before the retry decision: an error
				// return follows at once if the retry was already used
				select {
				case lr2 := <-n.Logs:
					if lr2.Msg == "failed to measure clock offset" {
						return "error", r
					}
					if lr2.Msg == "client panic" {
						return "panic", r
					}
				case <-time.After(3 * time.Millisecond):
				}
				return "skip", r
			case "failed to measure clock offset":
				return "error", r
			case "client panic":
				return "panic", r
			}
		case <-deadline:
			return "ignored", r
		}
	}
}

func findH(n *Net, pred func(h *Handling) bool) *Handling {
	var best *Handling
	for _, h := range n.Handlings {
		if pred(h) && (best == nil || h.H < best.H) {
			best = h
		}
	}
	return best
}

func between(x, lo, hi time.Time) bool {
	return !x.Before(lo.Add(-slack)) && !x.After(hi.Add(slack))
}

// fillAccept identifies, for a measurement the client reported, the exchange
// each of the four combined timestamps belongs to. All windows are CAUSAL
// (bounded by harness-side kernel timestamps of events that necessarily precede
// or follow the client's own timestamp), so machine load widens them but cannot
// make a correct client fall outside.
func fillAccept(rc *rec, n *Net, cur *attempt, atts map[int]*attempt, r reaction, delAt, seen time.Time) {
	cur.acc, cur.delAt = true, delAt
	off := r.eval.Attrs["clock offset"].Duration()
	rtd := r.eval.Attrs["round trip delay"].Duration()
	rc.Il = r.eval.Attrs["interleaved"].Bool()
	data := r.received.Attrs["data"]
	rRx, rTx := groupT64(data, "ReceiveTime"), groupT64(data, "TransmitTime")
	ref := time.Now()
	var t1, t2 ntp.Time64
	var tt0, tt3 time.Time
	if rc.Il {
		// all four timestamps are on the wire: three in the request, one in the response
		t0, t3 := cur.req.TransmitTime, cur.req.ReceiveTime
		t1, t2 = cur.req.OriginTime, rTx
		tt0, tt3 = ntp.TimeFromTime64(t0, ref), ntp.TimeFromTime64(t3, ref)
		// client side: which attempt do t0 and t3 belong to. t0 of attempt a was
		// taken between the client's previous event and the arrival of a's request
		// at the harness; t3 between the delivery of the accepted response and the
		// arrival of the client's next request.
		for _, a := range atts {
			if !a.acc || !a.rec || a == cur {
				continue
			}
			if a.accCTx == t0 {
				rc.T0ex = a.ex
				rc.Win0 = between(tt0.Add(time.Nanosecond), a.prevEv, a.arr.At)
			}
			if a.accCRx == t3 && !a.nextArr.IsZero() {
				rc.T3ex = a.ex
				rc.Win3 = between(tt3.Add(time.Nanosecond), a.delAt, a.nextArr)
			}
		}
	} else {
		t1, t2 = rRx, rTx
	}
	// server side
	if h := findH(n, func(h *Handling) bool { return h.Rxt64 == t1 }); h != nil {
		rc.T1h, rc.T1ex = h.H, h.Ex
		// all server timestamps carry that handling's theta
		st1 := ntp.TimeFromTime64(t1, ref.Add(h.Theta))
		st2 := ntp.TimeFromTime64(t2, ref.Add(h.Theta))
		if rc.Il {
			d := off - ntp.ClockOffset(tt0, st1, st2, tt3)
			rc.Reco = d >= -3 && d <= 3
		} else {
			// t1, t2 are the accepted datagram's own fields; the client's t0/t3 are
			// not on the wire. t0 lies in [P, A] (previous event of the client ..
			// arrival of this request), t3 in [D, J] (delivery of the response .. the
			// harness saw the client's log record). The reported offset and delay
			// must be those of SOME such t0, t3.
			P, A, D, J := cur.prevEv, cur.arr.At, delAt, seen
			offLo, offHi := ntp.ClockOffset(A, st1, st2, J), ntp.ClockOffset(P, st1, st2, D)
			rtdLo, rtdHi := ntp.RoundTripDelay(A, st1, st2, D), ntp.RoundTripDelay(P, st1, st2, J)
			rc.Reco = off >= offLo-slack && off <= offHi+slack
			in := rtd >= rtdLo-slack && rtd <= rtdHi+slack
			rc.T0ex, rc.T3ex, rc.Win0, rc.Win3 = cur.ex, cur.ex, in, in
		}
		rc.Err = clamp(off - h.Theta)
	} else {
		rc.Err = clampNs
	}
	if h := findH(n, func(h *Handling) bool { return h.Sent && h.Ktx64 == t2 }); h != nil {
		rc.T2h, rc.T2r = h.H, "sTx"
	} else if h := findH(n, func(h *Handling) bool { return h.Txt064 == t2 }); h != nil {
		rc.T2h, rc.T2r = h.H, "sTx0"
	}
	rc.Rtd = clamp(rtd)
}
