package x01

import (
	"context"
	"errors"
	"math/rand"
	"net"
	"net/netip"
	"os"
	"strings"
	"testing"
	"time"

	"example.com/scion-time/core/server"
	"example.com/scion-time/net/csptp"

	"verif/harness/internal/vio"
)

// one move of a TLC-generated schedule (CsptpExchangeGen.hist)
type mname struct {
	Kind string `json:"kind"`
	Ex   int    `json:"ex"`
	Copy int    `json:"copy"`
	H    int    `json:"h"`
	N    int    `json:"n"`
}
type move struct {
	A   string `json:"a"`
	Cl  int    `json:"cl"`
	Ex  int    `json:"ex"`
	M   mname  `json:"m"`
	H   int    `json:"h"`
	T   int    `json:"t"`
	F   string `json:"f"`
	N   int    `json:"n"`
	Res string `json:"res"`
}

// record layout for CsptpExchangeTrace.tla
type rec struct {
	Ev   string `json:"ev"` // reset | req | recv | accept | div | sreq | sresp | end
	Beh  int    `json:"beh"`
	Cl   int    `json:"cl"`
	Ex   int    `json:"ex"`
	Want string `json:"want"` // outcome predicted by the schedule ("" if none)
	Got  string `json:"got"`  // ok | stored | skip | error | timeout | ignored | panic
	Mk   string `json:"mk"`   // kind of the datagram delivered
	Flaw string `json:"flaw"`
	// req: the two requests of a call
	SeqSame bool `json:"seqsame"`
	TlvOk   bool `json:"tlvok"`
	Seq     int  `json:"seq"`
	WantSeq int  `json:"wantseq"`
	// accept: identification of what the reported offset was computed from
	T1h    int  `json:"t1h"`  // pairing whose request ingress timestamp is t1 (0 = none)
	T1ex   int  `json:"t1ex"` // exchange whose Sync request that pairing timestamped
	T1cl   int  `json:"t1cl"` // client that sent that Sync
	T2h    int  `json:"t2h"`  // pairing whose Sync-response transmit time is t2
	T3h    int  `json:"t3h"`  // pairing of the Sync response whose delivery window contains t3
	T3f    bool `json:"t3f"`  // t3 is the receive time of a forged datagram
	M0ok   bool `json:"m0ok"` // used Sync: sequence id of the outstanding request, type Sync
	M1ok   bool `json:"m1ok"` // used Follow_Up: sequence id, type, response TLV ids
	Src0ok bool `json:"src0ok"`
	Src1ok bool `json:"src1ok"`
	Reco   bool `json:"reco"`   // reported offset = ClockOffset(t0,t1,t2,t3,t1Corr,t3Corr), t0 in the send window
	Err    int  `json:"err"`    // reported offset - true offset (theta in force at t1), ns, clamped
	Rtd    int  `json:"rtd"`    // (t1-t0-t1Corr) + (t3-t2-t3Corr), ns, clamped
	ThSame bool `json:"thsame"` // server clock not stepped between t1 and t2
	T3d    int  `json:"t3d"`    // t3 - send time of the latest Sync-typed delivery (ns, clamped; diagnostic)
	NoTs   bool `json:"nots"`   // the client logged a missing kernel rx timestamp during this call (diagnostic)
	// sresp: a datagram the REAL server sent
	Paired bool `json:"paired"`
	PortOk bool `json:"portok"`
	Once   bool `json:"once"`
	Own    bool `json:"own"`
}

const (
	clampNs   = 1_000_000_000
	early     = 50 * time.Microsecond
	residence = 600 * time.Microsecond
	callTO    = 150 * time.Millisecond
)

func clamp(d time.Duration) int {
	if d > clampNs {
		return clampNs
	}
	if d < -clampNs {
		return -clampNs
	}
	return int(d)
}

type exch struct {
	ex, cl   int
	port     uint16
	seq      uint16
	arr0     time.Time
	arrFu    time.Time
	start    time.Time // the call was started after this: t0 in [start, arr0]
	fs, ff   *tsConn // real mode: forwarding sockets (Sync, Follow_Up)
	fwdSync  []time.Time
	fwdFu    []time.Time
}

type rkey struct {
	kind     string
	ex, copy int
}
type pkey struct {
	kind       string
	h, copy, n int
}
type inflight struct {
	b    []byte
	port uint16
	dst  netip.AddrPort
	src  string
	h, n int
	kind string
}
type delivery struct {
	cl, ex int
	kind   string
	h, n   int
	src    string
	at     time.Time // just before the send
	after  time.Time // just after the send returned: on loopback the receiver's kernel rx timestamp lies in [at, after]
	until  time.Time // the client's reaction was observed by then (bounds a software rx timestamp)
}

type runner struct {
	t     *testing.T
	ep    *Endpoint
	mode  string
	srv   *SimServer
	out   *vio.Out
	rng   *rand.Rand
	beh   int
	clis  map[int]*cli
	exs   map[int]*exch
	cur   map[int]*exch
	reqs  map[rkey]*inflight
	resps map[pkey]*inflight
	dels  []delivery
	byH   map[int]*Pairing // schedule's pairing number -> pairing of the stand-in server
	recvd map[int]LogRec   // last "received response" per client
	nots  map[int]bool
	txfail map[int]int
	nacc  int
	// real mode
	reqlog   []sreq
	nresp    int
	answered [][3]int
}

type sreq struct {
	cl   int
	kind string
	seq  uint16
	port uint16
	at   time.Time
	ex   int
}

func (r *runner) pause() { time.Sleep(time.Duration(200+r.rng.Intn(600)) * time.Microsecond) }

func (r *runner) client(c int) *cli {
	if k := r.clis[c]; k != nil {
		return k
	}
	k := newCli(c)
	r.clis[c] = k
	return k
}

func classify(res MeasureResult) string {
	if res.Err == nil {
		return "ok"
	}
	if strings.HasPrefix(res.Err.Error(), "PANIC") {
		return "panic"
	}
	var ne net.Error
	if errors.As(res.Err, &ne) && ne.Timeout() {
		return "timeout"
	}
	if errors.Is(res.Err, os.ErrDeadlineExceeded) || errors.Is(res.Err, context.DeadlineExceeded) {
		return "timeout"
	}
	return "error"
}

func (r *runner) note(k *cli, lr LogRec) {
	switch lr.Msg {
	case "received response":
		r.recvd[k.id] = lr
	case "failed to read packet rx timestamp":
		r.nots[k.id] = true
	case "failed to read packet tx timestamp":
		r.txfail[k.id]++
	}
}

func (r *runner) waitDone(k *cli) (MeasureResult, bool) {
	select {
	case res := <-k.done:
		return res, true
	case <-time.After(callTO + time.Second):
		r.t.Fatalf("client call did not return after its deadline")
	}
	return MeasureResult{}, false
}

// await tells what the client did with the datagram just delivered.
func (r *runner) await(k *cli, want string) (string, MeasureResult) {
	// no reaction is the reaction to a datagram that is stored; where the schedule predicts a
	// visible reaction, wait for it longer (the machine may be busy)
	q := 3 * time.Millisecond
	if want != "stored" && want != "" {
		q = 60 * time.Millisecond
	}
	quiet := time.After(q)
	for {
		select {
		case lr := <-k.logs:
			r.note(k, lr)
			switch lr.Msg {
			case "received response":
				quiet = time.After(200 * time.Millisecond)
			case "received unexpected message", "failed to read packet: unexpected source",
				"failed to decode packet payload":
				return "skip", MeasureResult{}
			}
		case res := <-k.done:
			// the log records of the evaluation precede the return
			for len(k.logs) > 0 {
				r.note(k, <-k.logs)
			}
			return classify(res), res
		case <-quiet:
			return "stored", MeasureResult{}
		}
	}
}

func (r *runner) send(mv move) bool {
	k := r.client(mv.Cl)
	if k.calling.Load() {
		// the schedule says the previous call is over, the client is still in it
		r.out.Emit(rec{Ev: "div", Beh: r.beh, Cl: mv.Cl, Ex: mv.Ex, Got: "still-calling"})
		r.waitDone(k)
	}
	for len(k.done) > 0 {
		<-k.done
	}
	k.drainLogs()
	r.nots[k.id], r.txfail[k.id] = false, 0
	t00 := time.Now().UTC()
	k.start(r.ep.A, callTO)
	e := &exch{ex: mv.Ex, cl: mv.Cl, start: t00}
	var syncB, fuB []byte
	deadline := time.After(2 * time.Second)
	for syncB == nil || fuB == nil {
		select {
		case a := <-r.ep.Arrivals:
			if a.Src.Addr() != k.local {
				continue
			}
			if a.Port == csptp.EventPortIP && syncB == nil {
				syncB, e.arr0, e.port = a.B, a.At, a.Src.Port()
			} else if a.Port == csptp.GeneralPortIP && fuB == nil {
				fuB, e.arrFu = a.B, a.At
				if e.port == 0 {
					e.port = a.Src.Port()
				}
				r.reqs[rkey{"fu", mv.Ex, 0}] = &inflight{b: a.B, port: a.Src.Port()}
			}
		case <-deadline:
			r.t.Fatalf("client %d did not send its two requests", mv.Cl)
		}
	}
	var m0, m1 csptp.Message
	var tlv csptp.RequestTLV
	if len(syncB) < csptp.MinMessageLength || len(fuB) < csptp.MinMessageLength ||
		csptp.DecodeMessage(&m0, syncB[:csptp.MinMessageLength]) != nil ||
		csptp.DecodeMessage(&m1, fuB[:csptp.MinMessageLength]) != nil {
		r.t.Fatalf("client sent undecodable requests")
	}
	tlvErr := csptp.DecodeRequestTLV(&tlv, fuB[csptp.MinMessageLength:])
	e.seq = m0.SequenceID
	r.reqs[rkey{"sync", mv.Ex, 0}] = &inflight{b: syncB, port: e.port}
	r.exs[mv.Ex], r.cur[mv.Cl] = e, e
	r.out.Emit(rec{Ev: "req", Beh: r.beh, Cl: mv.Cl, Ex: mv.Ex,
		SeqSame: m0.SequenceID == m1.SequenceID &&
			m0.SdoIDMessageType == csptp.MessageTypeSync && m1.SdoIDMessageType == csptp.MessageTypeFollowUp &&
			len(syncB) == csptp.MinMessageLength && int(m1.MessageLength) == len(fuB),
		TlvOk: tlvErr == nil && tlv.Type == csptp.TLVTypeOrganizationExtension &&
			tlv.OrganizationID == [3]uint8{csptp.OrganizationIDMeinberg0, csptp.OrganizationIDMeinberg1, csptp.OrganizationIDMeinberg2} &&
			tlv.OrganizationSubType == [3]uint8{csptp.OrganizationSubTypeRequest0, csptp.OrganizationSubTypeRequest1, csptp.OrganizationSubTypeRequest2} &&
			len(fuB)-csptp.MinMessageLength == csptp.EncodedRequestTLVLength(&tlv),
		Seq: int(m0.SequenceID), WantSeq: k.oks})
	if r.mode == "real" {
		var err error
		if e.fs, err = listenTS(addrFwd(mv.Cl), 0); err != nil {
			r.t.Fatal(err)
		}
		if e.ff, err = listenTS(addrFwd(mv.Cl), 0); err != nil {
			r.t.Fatal(err)
		}
	}
	return true
}

func (r *runner) forged(mv move) {
	e := r.cur[mv.Cl]
	if e == nil {
		return
	}
	dst := netip.AddrPortFrom(addrClient(mv.Cl), e.port)
	marker := time.Unix(int64(1000+mv.N), 0).UTC()
	f := &inflight{dst: dst, src: "e", n: mv.N, kind: "rsync", b: syncResp(e.seq, 0)}
	switch mv.F {
	case "seq":
		f.b = syncResp(e.seq+1, 0)
	case "src0":
		f.src = "g"
	case "src1":
		f.kind, f.src = "rfu", "x"
		f.b = fuResp(e.seq, marker, 0, marker.Add(time.Millisecond), csptp.OrganizationSubTypeResponse2)
	case "type":
		f.kind = "other"
		f.b[0] = 1 // Delay_Req
	case "wf":
		switch r.rng.Intn(3) {
		case 0:
			f.b = f.b[:20]
		case 1:
			f.b[3] = 98 // messageLength says 98, datagram has 44 bytes
		default:
			f.b = append(f.b, 0, 0) // 46 bytes, messageLength 44
		}
	case "tlv":
		f.kind, f.src = "rfu", "g"
		f.b = fuResp(e.seq, marker, 0, marker.Add(time.Millisecond), csptp.OrganizationSubTypeRequest2)
	case "tail":
		fb := fuResp(e.seq, marker, 0, marker.Add(time.Millisecond), csptp.OrganizationSubTypeResponse2)
		fb[0] = csptp.MessageTypeSync
		f.b = fb
	}
	r.resps[pkey{f.kind, 0, 0, mv.N}] = f
}

func (r *runner) srecv(mv move) {
	key := rkey{mv.M.Kind, mv.M.Ex, mv.M.Copy}
	q := r.reqs[key]
	e := r.exs[mv.M.Ex]
	if q == nil || e == nil {
		return
	}
	delete(r.reqs, key)
	if r.mode == "real" {
		r.forward(e, mv.M.Kind, q.b)
		return
	}
	p := r.srv.Recv(e.cl, mv.M.Kind, e.seq, q.port, getCorr(q.b), e.ex)
	if (p != nil) != (mv.H != 0) {
		r.out.Emit(rec{Ev: "div", Beh: r.beh, Cl: e.cl, Ex: e.ex, Got: "pairing"})
	}
	if p == nil {
		return
	}
	if mv.H != 0 {
		r.byH[mv.H] = p
	}
	h := mv.H
	if h == 0 {
		h = 1000 + p.H
	}
	r.resps[pkey{"rsync", h, 0, 0}] = &inflight{b: syncResp(p.Seq, 0), dst: netip.AddrPortFrom(addrClient(p.Cl), p.SyPort),
		src: "e", h: p.H, kind: "rsync"}
	r.resps[pkey{"rfu", h, 0, 0}] = &inflight{b: fuResp(p.Seq, p.T1, p.RC, p.T2, csptp.OrganizationSubTypeResponse2),
		dst: netip.AddrPortFrom(addrClient(p.Cl), p.FuPort), src: "g", h: p.H, kind: "rfu"}
}

func (r *runner) crecv(mv move) {
	key := pkey{mv.M.Kind, mv.M.H, mv.M.Copy, mv.M.N}
	f := r.resps[key]
	k := r.client(mv.Cl)
	e := r.cur[mv.Cl]
	if f == nil || e == nil {
		r.out.Emit(rec{Ev: "div", Beh: r.beh, Cl: mv.Cl, Got: "absent"})
		return
	}
	delete(r.resps, key)
	rc := rec{Ev: "recv", Beh: r.beh, Cl: mv.Cl, Ex: e.ex, Want: mv.Res, Mk: f.kind}
	if !k.calling.Load() {
		rc.Got = "ignored"
		r.out.Emit(rc)
		return
	}
	for len(k.logs) > 0 {
		r.note(k, <-k.logs)
	}
	at, err := r.ep.sock(f.src).deliver(f.b, f.dst)
	if err != nil {
		r.t.Fatalf("deliver failed: %v", err)
	}
	r.dels = append(r.dels, delivery{cl: mv.Cl, ex: e.ex, kind: f.kind, h: f.h, n: f.n, src: f.src, at: at, after: time.Now().UTC()})
	got, res := r.await(k, mv.Res)
	r.dels[len(r.dels)-1].until = time.Now().UTC()
	rc.Got = got
	if got == "ok" {
		rc.Ev = "accept"
		r.fillAccept(&rc, k, e, res)
		k.oks++
		r.nacc++
	}
	r.out.Emit(rc)
}

func (r *runner) fillAccept(rc *rec, k *cli, e *exch, res MeasureResult) {
	lr := r.recvd[k.id]
	rc.NoTs = r.nots[k.id]
	off := res.Off
	t1 := csptp.TimeFromTimestamp(lr.TLV.RequestIngressTimestamp)
	t2 := csptp.TimeFromTimestamp(lr.M1.Timestamp)
	t3 := res.Ts
	var p1, p2 *Pairing
	for _, p := range r.srv.Pairs {
		if p.T1.Equal(t1) {
			p1 = p
		}
		if p.T2.Equal(t2) {
			p2 = p
		}
	}
	if p1 != nil {
		rc.T1h, rc.T1ex = p1.H, p1.SyEx
		if x := r.exs[p1.SyEx]; x != nil {
			rc.T1cl = x.cl
		}
	}
	if p2 != nil {
		rc.T2h = p2.H
	}
	// t3: which delivery of a Sync-typed datagram to this socket
	var d3 *delivery
	for i := range r.dels {
		d := &r.dels[i]
		if d.cl != k.id || d.ex != e.ex || len(dBytesKind(d.kind)) == 0 {
			continue
		}
		rc.T3d = clamp(t3.Sub(d.at))
		hi := d.after.Add(early)
		if rc.NoTs {
			hi = d.until
		}
		if !t3.Before(d.at.Add(-early)) && !t3.After(hi) {
			d3 = d
		}
	}
	if d3 != nil {
		rc.T3h, rc.T3f, rc.Src0ok = d3.h, d3.n != 0, d3.src == "e"
	}
	rc.M0ok = lr.M0.SequenceID == e.seq && lr.M0.SdoIDMessageType == csptp.MessageTypeSync
	rc.M1ok = lr.M1.SequenceID == e.seq && lr.M1.SdoIDMessageType == csptp.MessageTypeFollowUp &&
		lr.TLV.Type == csptp.TLVTypeOrganizationExtension &&
		lr.TLV.OrganizationID == [3]uint8{csptp.OrganizationIDMeinberg0, csptp.OrganizationIDMeinberg1, csptp.OrganizationIDMeinberg2} &&
		lr.TLV.OrganizationSubType == [3]uint8{csptp.OrganizationSubTypeResponse0, csptp.OrganizationSubTypeResponse1, csptp.OrganizationSubTypeResponse2}
	if p2 != nil {
		for _, d := range r.dels {
			if d.cl == k.id && d.ex == e.ex && d.kind == "rfu" && d.h == p2.H && d.n == 0 {
				rc.Src1ok = d.src == "g"
			}
		}
	}
	c1 := csptp.DurationFromTimeInterval(lr.TLV.RequestCorrectionField)
	c3 := csptp.DurationFromTimeInterval(lr.M0.CorrectionField) + csptp.DurationFromTimeInterval(lr.M1.CorrectionField)
	// t0 is not on the wire: the request's kernel receive time at the endpoint bounds it
	a := t1.Sub(e.arr0) - c1
	b := t3.Sub(t2) - c3
	d := 2*off - (a - b) // = arr0 - t0 (+- rounding) if the offset is ClockOffset of these values
	lo := -early - 2
	if r.txfail[k.id] >= 2 {
		// the client could not read the Sync's kernel tx timestamp and used its clock, before it sent the Follow_Up
		lo = -e.arrFu.Sub(e.arr0) - early
	}
	rc.Reco = d >= lo && d <= e.arr0.Sub(e.start)+early
	// with t0 = arr0 - d: (t1 - t0 - t1Corr) + (t3 - t2 - t3Corr)
	rc.Rtd = clamp(a + d + b)
	if p1 != nil {
		rc.Err = clamp(off - p1.Th1)
		rc.ThSame = p2 != nil && p1.Th1 == p2.Th2
	} else {
		rc.Err = clampNs
	}
}

// Sync-typed datagrams (genuine, or forged ones derived from a Sync)
func dBytesKind(kind string) string {
	if kind == "rsync" || kind == "other" {
		return kind
	}
	return ""
}

func (r *runner) timeout(mv move) {
	k := r.client(mv.Cl)
	rc := rec{Ev: "recv", Beh: r.beh, Cl: mv.Cl, Want: "timeout", Got: "ignored", Mk: "none"}
	if e := r.cur[mv.Cl]; e != nil {
		rc.Ex = e.ex
	}
	if k.calling.Load() || len(k.done) > 0 {
		res, _ := r.waitDone(k)
		rc.Got = classify(res)
	}
	r.out.Emit(rc)
}

// ---------------------------------------------------------------- real server
func (r *runner) forward(e *exch, kind string, b []byte) {
	c, port := e.fs, csptp.EventPortIP
	if kind == "fu" {
		c, port = e.ff, csptp.GeneralPortIP
	}
	at, err := c.write(b, netip.AddrPortFrom(addrReal, uint16(port)))
	if err != nil {
		r.t.Fatalf("forward failed: %v", err)
	}
	r.reqlog = append(r.reqlog, sreq{cl: e.cl, kind: kind, seq: e.seq, port: c.port(), at: at, ex: e.ex})
	r.out.Emit(rec{Ev: "sreq", Beh: r.beh, Cl: e.cl, Ex: e.ex, Mk: kind, Seq: int(e.seq)})
	r.poll()
}

// poll: anything the real server sent to one of the forwarding sockets
func (r *runner) poll() {
	time.Sleep(2 * time.Millisecond)
	for _, e := range r.exs {
		for _, c := range []*tsConn{e.fs, e.ff} {
			if c == nil {
				continue
			}
			for {
				b, at, src, err := c.read(200 * time.Microsecond)
				if err != nil {
					break
				}
				r.sresp(e.cl, c.port(), b, at, src)
			}
		}
	}
}

func (r *runner) sresp(cl int, port uint16, b []byte, at time.Time, src netip.AddrPort) {
	r.nresp++
	rc := rec{Ev: "sresp", Beh: r.beh, Cl: cl, Mk: "other"}
	var m csptp.Message
	if len(b) >= csptp.MinMessageLength && csptp.DecodeMessage(&m, b[:csptp.MinMessageLength]) == nil {
		rc.Seq = int(m.SequenceID)
		want := ""
		if m.SdoIDMessageType == csptp.MessageTypeSync {
			rc.Mk, want = "rsync", "sync"
		} else if m.SdoIDMessageType == csptp.MessageTypeFollowUp {
			rc.Mk, want = "rfu", "fu"
		}
		ns, nf, answered := 0, 0, 0
		for _, q := range r.reqlog {
			if q.cl != cl || q.seq != m.SequenceID {
				continue
			}
			if q.kind == "sync" {
				ns++
			} else {
				nf++
			}
			if q.kind == want && q.port == port {
				rc.PortOk = true
			}
		}
		rc.Paired = ns > 0 && nf > 0
		for _, x := range r.answered {
			if x == [3]int{cl, int(m.SequenceID), int(m.SdoIDMessageType)} {
				answered++
			}
		}
		rc.Once = answered < min(ns, nf)
		r.answered = append(r.answered, [3]int{cl, int(m.SequenceID), int(m.SdoIDMessageType)})
		rc.Own = true
		if rc.Mk == "rfu" {
			var tlv csptp.ResponseTLV
			rc.Own = false
			if csptp.DecodeResponseTLV(&tlv, b[csptp.MinMessageLength:]) == nil {
				t1 := csptp.TimeFromTimestamp(tlv.RequestIngressTimestamp)
				for _, q := range r.reqlog {
					if q.cl == cl && q.kind == "sync" && q.seq == m.SequenceID &&
						!t1.Before(q.at.Add(-early)) && !t1.After(at.Add(early)) {
						rc.Own = true
					}
				}
			}
		}
	}
	r.out.Emit(rc)
}

// crafted requests straight to the real server: lone halves, a pair split over two
// client addresses, malformed datagrams
func (r *runner) crafted() {
	mk := func(typ uint8, seq uint16, tlv bool) []byte {
		msg := csptp.Message{SdoIDMessageType: typ, PTPVersion: csptp.PTPVersion, MessageLength: csptp.MinMessageLength,
			FlagField: csptp.FlagUnicast, SourcePortIdentity: csptp.PortID{Port: 1}, SequenceID: seq}
		b := make([]byte, csptp.MaxMessageLength)
		if tlv {
			q := csptp.RequestTLV{Type: csptp.TLVTypeOrganizationExtension,
				OrganizationID:      [3]uint8{csptp.OrganizationIDMeinberg0, csptp.OrganizationIDMeinberg1, csptp.OrganizationIDMeinberg2},
				OrganizationSubType: [3]uint8{csptp.OrganizationSubTypeRequest0, csptp.OrganizationSubTypeRequest1, csptp.OrganizationSubTypeRequest2},
				FlagField:           csptp.TLVFlagServerStateDS}
			q.Length = uint16(csptp.EncodedRequestTLVLength(&q))
			msg.MessageLength += q.Length
			csptp.EncodeRequestTLV(b[csptp.MinMessageLength:], &q)
		}
		csptp.EncodeMessage(b[:csptp.MinMessageLength], &msg)
		return b[:msg.MessageLength]
	}
	ex := 900
	for c := 1; c <= 2; c++ {
		e := &exch{ex: ex + c, cl: c}
		var err error
		if e.fs, err = listenTS(addrFwd(c), 0); err != nil {
			r.t.Fatal(err)
		}
		if e.ff, err = listenTS(addrFwd(c), 0); err != nil {
			r.t.Fatal(err)
		}
		r.exs[e.ex] = e
	}
	e1, e2 := r.exs[901], r.exs[902]
	e1.seq = 700
	r.forward(e1, "fu", mk(csptp.MessageTypeFollowUp, 700, true)) // lone Follow_Up
	e1.seq = 701
	r.forward(e1, "sync", mk(csptp.MessageTypeSync, 701, false)) // lone Sync
	e1.seq, e2.seq = 702, 702
	r.forward(e1, "sync", mk(csptp.MessageTypeSync, 702, false)) // halves from two addresses
	r.forward(e2, "fu", mk(csptp.MessageTypeFollowUp, 702, true))
	e1.seq = 703
	r.forward(e1, "sync", mk(csptp.MessageTypeSync, 703, false)) // different sequence ids
	e1.seq = 704
	r.forward(e1, "fu", mk(csptp.MessageTypeFollowUp, 704, true))
	e2.seq = 705
	r.forward(e2, "sync", mk(csptp.MessageTypeSync, 705, false)[:30]) // truncated
	r.forward(e2, "fu", mk(csptp.MessageTypeFollowUp, 705, true)[:60])
	r.poll()
}

// ---------------------------------------------------------------- schedule
func (r *runner) run(sc []move) {
	for _, mv := range sc {
		r.pause()
		switch mv.A {
		case "send":
			r.send(mv)
		case "theta":
			if r.srv != nil {
				r.srv.theta = time.Duration(mv.T) * time.Millisecond
			}
		case "dup":
			if mv.M.Kind == "sync" || mv.M.Kind == "fu" {
				if q := r.reqs[rkey{mv.M.Kind, mv.M.Ex, 0}]; q != nil {
					c := *q
					r.reqs[rkey{mv.M.Kind, mv.M.Ex, 1}] = &c
				}
			} else if f := r.resps[pkey{mv.M.Kind, mv.M.H, 0, mv.M.N}]; f != nil {
				c := *f
				r.resps[pkey{mv.M.Kind, mv.M.H, 1, mv.M.N}] = &c
			}
		case "drop":
			delete(r.reqs, rkey{mv.M.Kind, mv.M.Ex, mv.M.Copy})
			delete(r.resps, pkey{mv.M.Kind, mv.M.H, mv.M.Copy, mv.M.N})
		case "tc":
			time.Sleep(residence)
			if q := r.reqs[rkey{mv.M.Kind, mv.M.Ex, mv.M.Copy}]; q != nil && mv.M.Kind == "sync" {
				q.b = addCorr(q.b, residence)
			} else if f := r.resps[pkey{mv.M.Kind, mv.M.H, mv.M.Copy, mv.M.N}]; f != nil && mv.M.Kind == "rsync" {
				f.b = addCorr(f.b, residence)
			}
		case "inject":
			r.forged(mv)
		case "srecv":
			r.srecv(mv)
		case "crecv":
			r.crecv(mv)
		case "timeout":
			r.timeout(mv)
		}
	}
	// let running calls finish before the next behaviour
	for _, k := range r.clis {
		if k.calling.Load() {
			r.waitDone(k)
		}
	}
	if r.mode == "real" {
		r.crafted()
		for _, e := range r.exs {
			if e.fs != nil {
				e.fs.c.Close()
				e.ff.c.Close()
			}
		}
	}
}

func newRunner(t *testing.T, ep *Endpoint, mode string, out *vio.Out, rng *rand.Rand, beh int) *runner {
	r := &runner{t: t, ep: ep, mode: mode, out: out, rng: rng, beh: beh, clis: map[int]*cli{}, exs: map[int]*exch{},
		cur: map[int]*exch{}, reqs: map[rkey]*inflight{}, resps: map[pkey]*inflight{}, byH: map[int]*Pairing{},
		recvd: map[int]LogRec{}, nots: map[int]bool{}, txfail: map[int]int{}}
	if mode == "sim" {
		r.srv = NewSimServer()
	}
	for len(ep.Arrivals) > 0 {
		<-ep.Arrivals
	}
	return r
}

func runAll(t *testing.T, mode string, a netip.Addr) {
	registerClock()
	scheds := vio.ReadCases[[]move](t)
	out := vio.Create(t)
	defer out.Close()
	rng := vio.Rand()
	ep, err := NewEndpoint(a)
	if err != nil {
		t.Fatal(err)
	}
	defer ep.Close()
	nacc, nresp := 0, 0
	for bi, sc := range scheds {
		out.Emit(rec{Ev: "reset", Beh: bi})
		r := newRunner(t, ep, mode, out, rng, bi)
		r.run(sc)
		out.Emit(rec{Ev: "end", Beh: bi})
		nacc += r.nacc
		nresp += r.nresp
	}
	t.Logf("X01 %s: %d schedules, %d accepted measurements, %d datagrams from the real server", mode, len(scheds), nacc, nresp)
}

// TestX01: real client, scripted network, stand-in server.
func TestX01(t *testing.T) { runAll(t, "sim", addrSim) }

// TestX01Server: real client, scripted relay, REAL server.
func TestX01Server(t *testing.T) {
	registerClock()
	server.StartCSPTPServerIP(context.Background(), slogNull(), &net.UDPAddr{IP: addrReal.AsSlice()}, 0)
	time.Sleep(20 * time.Millisecond)
	runAll(t, "real", addrRelay)
}
