SPECIFICATION Spec
CONSTANTS
  W = 6
  Vals <- ValsDeep
  MaxN = 8
INVARIANTS Contain TightEquiv MedIn PermInv NoWrap
