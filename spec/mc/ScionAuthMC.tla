---------------------------- MODULE ScionAuthMC ----------------------------
EXTENDS ScionAuth, Json

\* ------------------------------------------------------------- dimensions
ModesAll  == {"server", "dispatcher"}
ULsAll    == {"srv", "eh"}
L4sAll    == L4Kinds
DPortsAll == {"srv", "eh", "oth"}
DHostsAll == {"S", "D"}
FamsAll   == {4, 6}
Fams4     == {4}
PlsAll    == {"ntp", "short", "badreq", "data"}
\* (under the mock regime the key-mismatch classes are all the same key)
ReqAuthsAll == AuthKinds \ {"keyOtherSrv", "keyOtherCli", "keyOtherIA", "keyPrevEpoch", "keyNextEpoch"}
\* what the network may do to a reply
RespMutsAll == {"pass", "strip", "macFlip", "covHdr", "covPath", "covPld", "tsFlip", "rsvFlip", "uncovFlip",
                "spiFlip", "algoFlip"}

CIAs1   == {"iaC"}
CHosts1 == {"C"}
\* ---- key regime "drkey": sequences of authenticated requests to one listener
ModesK  == {"server"}
ULsK    == {"srv"}
L4sK    == {"udp"}
DPortsK == {"srv"}
PlsK    == {"ntp"}
PathsK  == {EmptyPath}
CIAs2   == {"iaC", "iaC2"}
CHosts2 == {"C", "C2"}
ReqAuthsK == {"valid", "keyOtherSrv", "keyOtherCli", "keyOtherIA"}
RespMutsK == {"pass"}
CHostsK3 == {"C"}
ReqAuthsK3 == {"valid", "keyOtherSrv"}
\* ---- time and key epochs: one client, one server host; what varies is when each
\* request arrives (Advance: every instant of up to three epochs of three instants:
\* first = NotBefore, middle, last = NotAfter), which epoch's key its MAC was computed
\* with, and hence what the listener's cache holds when it arrives (nothing / the key
\* of the same epoch / of the previous one / of an older one)
CIAsE     == {"iaC"}
CHostsE   == {"C"}
DHostsE   == {"S"}
ReqAuthsE == {"valid", "keyPrevEpoch", "keyNextEpoch"}
\* ... and with a second server host (the cache entry may be another host's)
ReqAuthsE2 == {"valid", "keyPrevEpoch", "keyNextEpoch", "keyOtherSrv"}
\* only clients that authenticate are of interest here
KeysOnly == cauth
\* a sequence = the datagrams handled so far plus the one just finished
EmitSeq == (pc = "done" /\ cauth) => PrintT(<<"SEQ", ToJson([steps |-> Append(hist, Observation)])>>)

P1  == [kind |-> "scion", ci |-> 0, ch |-> 1, segs |-> <<Seg(TRUE, 11, <<1, 2>>)>>]
P1s == [kind |-> "scion", ci |-> 0, ch |-> 0, segs |-> <<Seg(FALSE, 21, <<3, 4, 5>>)>>]
P2  == [kind |-> "scion", ci |-> 1, ch |-> 4, segs |-> <<Seg(FALSE, 11, <<1, 2, 3>>), Seg(TRUE, 12, <<4, 5>>)>>]
P2m == [kind |-> "scion", ci |-> 0, ch |-> 1, segs |-> <<Seg(FALSE, 11, <<1, 2, 3>>), Seg(TRUE, 12, <<4, 5>>)>>]
P3  == [kind |-> "scion", ci |-> 2, ch |-> 6,
        segs |-> <<Seg(FALSE, 11, <<1, 2>>), Seg(FALSE, 12, <<3, 4, 5>>), Seg(TRUE, 13, <<6, 7>>)>>]
P3a == [kind |-> "scion", ci |-> 1, ch |-> 1,
        segs |-> <<Seg(TRUE, 31, <<1>>), Seg(FALSE, 32, <<2, 3>>), Seg(TRUE, 33, <<4, 5, 6>>)>>]
POH == [kind |-> "onehop", ci |-> 0, ch |-> 0, segs |-> <<Seg(TRUE, 41, <<8, 9>>)>>]
PEP == [kind |-> "epic", ci |-> 1, ch |-> 2, segs |-> <<Seg(FALSE, 51, <<1, 2>>), Seg(TRUE, 52, <<3, 4>>)>>]
PathsStd   == {EmptyPath, P1, P1s, P2, P2m, P3, P3a}
PathsAll   == PathsStd \cup {POH, PEP}
PathsSmall == {EmptyPath, P2, P3a, POH, PEP}
\* extension chains: every path with the plain chain, the other chains with two paths
PlainOf(ps) == {<<x, "e2e">> : x \in ps}
PathExtsAll   == PlainOf(PathsAll) \cup ({EmptyPath, P2} \X (Exts \ {"e2e"}))
PathExtsSmall == PlainOf(PathsSmall) \cup ({EmptyPath} \X (Exts \ {"e2e"}))
PathExtsK     == PlainOf({EmptyPath})
RespExtsAll   == {"e2e", "hbh"}
RespExts1     == {"e2e"}

\* reversing twice is the identity, and reversal keeps the authenticated part's
\* content (as a multiset of hops per segment) -- sanity of the path model
ASSUME \A p \in PathsAll \ {POH} : Reverse(Reverse(p)) = p
ASSUME Reverse(POH) = [kind |-> "scion", ci |-> 0, ch |-> 0, segs |-> <<Seg(FALSE, 41, <<9, 8>>)>>]
ASSUME SPIClient = 196731 /\ SPIServer = 131195 /\ AuthOptDataLen = 28

\* --------------------------------------------------------- case generator
\* crafted datagrams: everything the requester can put together; generation
\* stops when the datagram is complete (pc = "sent")
GenStop == pc \in {"l4", "port", "addr", "path", "auth"} /\ cauth
Case ==
  [mode |-> mode, ul |-> req.ul, l4 |-> req.l4, dp |-> req.dp, dh |-> req.dh, sfam |-> req.sfam, dfam |-> req.dfam,
   path |-> req.path, pl |-> req.pl0, ak |-> req.ak, ext |-> req.ext,
   expected |-> ExpectedReq(req), macok |-> MacOK(req, ReqKey(req)),
   wact |-> PredictAct(mode, req), wauthd |-> PredictAuthd(mode, req)]
Emit == (pc = "sent" /\ cauth) => PrintT(<<"CASE", ToJson(Case)>>)

\* end-to-end cases: the real client's request (possibly altered on the way),
\* the real server, the reply (possibly altered on the way back), the real client
ClientShaped == /\ mode = "server"
                /\ pc \notin {"l4"} => (req.ul = "srv" /\ req.l4 = "udp" /\ req.pl0 = "ntp")
                /\ pc \notin {"l4", "port"} => (req.dp = "srv" /\ req.dh = "S")
                /\ pc \notin {"l4", "port", "addr"} => (req.sfam = 4 /\ req.dfam = 4)
                /\ pc \notin {"l4", "port", "addr", "path"} => (req.path.kind \in {"empty", "scion"} /\ req.ext \in {"e2e", "hbh"})
E2ECase ==
  [cauth |-> cauth, path |-> req.path, ak |-> req.ak, rm |-> rm, ext |-> req.ext, rext |-> resp.ext,
   expected |-> ExpectedReq(req), macok |-> MacOK(req, ReqKey(req)),
   wact |-> act, wauthd |-> authd,
   rexpected |-> IF cres = "-" THEN FALSE ELSE ExpectedResp(resp),
   rmacok |-> IF cres = "-" THEN FALSE ELSE MacOK(resp, RespKey(resp)),
   wcres |-> cres]
EmitE2E == pc = "done" => PrintT(<<"E2E", ToJson(E2ECase)>>)
\* one run for both generators: crafted datagrams stop at "sent", client-shaped ones go on
GenAll == GenStop \/ ClientShaped

\* the generator agrees with the transition relation
PredictAgrees == pc = "done" => (act = PredictAct(mode, req) /\ (act = "ServeNtp" => authd = PredictAuthd(mode, req)))
=============================================================================
