SPECIFICATION Spec
CONSTANTS
  MaxClocks = 4
  Rounds = 1
  DVals = {1, 2, 3}
  Overlap = TRUE
  Hist = FALSE
  Fault = "none"
INVARIANTS Emit
