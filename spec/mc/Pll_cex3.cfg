SPECIFICATION Spec
CONSTANTS
  U = 1000
  OneMs = 2
  OffMax = 20
  PB = 500000
  SatSecs = 2001
  Advs <- AdvsSmall
  Offs <- OffsSmall
  Weights <- WeightsSmall
  AllowSat = TRUE
  BumpDen = 2
  InitClkEpochs = {0, 1}
  MaxLen = 3
  RawMags <- RawMagsFull
  StepUsesDoubleInv = FALSE
  DurationWraps = FALSE
  Jumps <- JumpsSmall
  StepAt = {1, 2, 3}
  MaxInDo = 1
  ReadsNowFirst = TRUE
  StepDen = 4
VIEW ViewCore
INVARIANTS TypeOK
PROPERTIES C19WaitStep
