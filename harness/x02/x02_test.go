// X02 driver: the real scion.Fetcher (DRKey cache) and the real scion.Pather
// (path refresher, incl. StartPather's ticker goroutine) against a scripted
// SCION daemon, under the virtual clock of testing/synctest.
//
//	TestX02      spec -> code: replays every behaviour TLC generated from
//	             spec/DrkeyCache.tla and spec/PathRefresh.tla (kind "drkey" /
//	             "pather") and records what the real code returned and what it
//	             asked the daemon; the records go to VERIF_OUT_D / VERIF_OUT_P
//	             for spec/trace/DrkeyCacheTrace.tla / PathRefreshTrace.tla.
//	TestX02Race  the sharing patterns of the repository under -race: one
//	             Fetcher shared by goroutines that call FetchHostHostKey
//	             (timeservice.go), one Fetcher per goroutine for FetchHostASKey
//	             (server_scion.go), callers of Pather.Paths/LocalIA that modify
//	             the returned slice while the refresher runs.
//	TestX02Env   USE_MOCK_KEYS is read at start-up (run in its own process).
//
// The package is built with `-overlay` (see checks/x02.py): the overlay adds
// net/scion/hooks_verif_x02.go and renames NewDaemonConnector in daemon.go so
// that StartPather can be given the scripted daemon.
package x02

import (
	"context"
	"encoding/binary"
	"errors"
	"fmt"
	"io"
	"log/slog"
	"net"
	"os"
	"runtime"
	"sync"
	"testing"
	"testing/synctest"
	"time"

	"github.com/scionproto/scion/pkg/addr"
	"github.com/scionproto/scion/pkg/daemon"
	"github.com/scionproto/scion/pkg/drkey"
	"github.com/scionproto/scion/pkg/snet"

	"example.com/scion-time/net/scion"

	"verif/harness/internal/vio"
)

// ---------------------------------------------------------------- embeddings
var (
	dstIA = map[int]addr.IA{1: addr.MustParseIA("1-ff00:0:111"), 2: addr.MustParseIA("1-ff00:0:112"), 3: addr.MustParseIA("2-ff00:0:211")}
	srcIA = map[int]addr.IA{1: addr.MustParseIA("1-ff00:0:110"), 2: addr.MustParseIA("1-ff00:0:120")}
	hosts = map[int]string{1: "10.1.0.1", 2: "10.1.0.2"}
	proto = map[int]drkey.Protocol{1: drkey.Protocol(7), 2: drkey.Protocol(8)}
)

func invIA(m map[int]addr.IA, ia addr.IA) (int, bool) {
	if ia == 0 {
		return 0, true
	}
	for k, v := range m {
		if v == ia {
			return k, true
		}
	}
	return 0, false
}

func invHost(h string) (int, bool) {
	if h == "" {
		return 0, true
	}
	for k, v := range hosts {
		if v == h {
			return k, true
		}
	}
	return 0, false
}

func invProto(p drkey.Protocol) (int, bool) {
	if p == 0 {
		return 0, true
	}
	for k, v := range proto {
		if v == p {
			return k, true
		}
	}
	return 0, false
}

var errDaemon = errors.New("scripted daemon: failure")

// ===================================================================== DRKey

type dev struct {
	Op     string `json:"op"` // adv | has | hh
	Proto  int    `json:"proto"`
	Src    int    `json:"src"`
	Dst    int    `json:"dst"`
	Host   int    `json:"host"`
	DHost  int    `json:"dhost"`
	V      int    `json:"v"` // validity instant (adv: clock step)
	Rp     int    `json:"rp"`
	Err    bool   `json:"err"`
	Nb     int    `json:"nb"`
	Na     int    `json:"na"`
	Ser    int    `json:"ser"`
	NCalls int    `json:"ncalls"`
}

type xcase struct {
	Kind string `json:"kind"`
	Src  string `json:"gsrc"`
	// drkey
	Mock bool `json:"mock"`
	E    int  `json:"e"`
	H6   int  `json:"h6"`
	// pather
	P  int     `json:"p"`
	Dl []int   `json:"dl"`
	H  []json2 `json:"h"`
}

// one event of either kind (fields of both; absent ones stay zero)
type json2 struct {
	dev
	Ph  string  `json:"ph"`
	D   int     `json:"d"`
	T   int     `json:"t"`
	Ids []int   `json:"ids"`
	Ia  int     `json:"ia"`
	U   int     `json:"u"`
	S   pscript `json:"s"`
}

type slot struct {
	Slot  int `json:"slot"`
	Proto int `json:"proto"`
	Src   int `json:"src"`
	Dst   int `json:"dst"`
	Host  int `json:"host"`
	Nb    int `json:"nb"`
	Na    int `json:"na"`
	Ser   int `json:"ser"`
}

type drec struct {
	Op     string `json:"op"` // reset | adv | has | hh
	Src    string `json:"gsrc"`
	B      int    `json:"b"`
	Mock   bool   `json:"mock"`
	E      int    `json:"e"`
	H6     int    `json:"h6"`
	Proto  int    `json:"proto"`
	SrcIA  int    `json:"src"`
	Dst    int    `json:"dst"`
	Host   int    `json:"host"`
	DHost  int    `json:"dhost"`
	V      int    `json:"v"`
	T      int    `json:"t"`
	D      int    `json:"d"`
	Err    bool   `json:"err"`
	KProto int    `json:"kproto"`
	KSrc   int    `json:"ksrc"`
	KDst   int    `json:"kdst"`
	KHost  int    `json:"khost"`
	KDHost int    `json:"kdhost"`
	Nb     int    `json:"nb"`
	Na     int    `json:"na"`
	Ser    int    `json:"ser"`
	NCalls int    `json:"ncalls"`
	NFail  int    `json:"nfail"`
	CSer   int    `json:"cser"`
	Rp     int    `json:"rp"` // what the daemon answered during this call (-2: not asked)
	Exact  bool   `json:"exact"`
	RawOK  bool   `json:"raw_ok"`
	Cache  []slot `json:"cache"`
	HasX   bool   `json:"hasx"`
	XErr   bool   `json:"xerr"`
	XNb    int    `json:"xnb"`
	XNa    int    `json:"xna"`
	XSer   int    `json:"xser"`
	XCalls int    `json:"xncalls"`
}

const dUnit = 3 * time.Hour // model unit of the DRKey behaviours (H6 = 2)

// keyDaemon answers exactly the two DRKey calls the Fetcher makes; every other
// method of daemon.Connector is the nil embedded interface (a call would panic).
type keyDaemon struct {
	daemon.Connector
	mu     sync.Mutex
	start  time.Time
	e      int
	rp     int // scripted answer for the Fetcher call in progress
	gave   int
	calls  int // serial
	ncalls int
	nfail  int
	last   int
}

func (d *keyDaemon) arm(rp int) {
	d.mu.Lock()
	d.rp, d.gave, d.ncalls, d.nfail, d.last = rp, -2, 0, 0, 0
	d.mu.Unlock()
}

// epoch returns the scripted epoch, or the honest default (the epoch beginning
// at or before v) when the specification did not expect a daemon call.
func (d *keyDaemon) answer(v time.Time) (drkey.Epoch, int, error) {
	d.mu.Lock()
	defer d.mu.Unlock()
	d.calls++
	d.ncalls++
	d.last = d.calls
	k := d.rp
	if k == -1 {
		d.nfail++
		d.gave = -1
		return drkey.Epoch{}, d.calls, errDaemon
	}
	el := time.Duration(d.e) * dUnit
	if k < 0 {
		k = int(v.Sub(d.start) / el)
		if k < 0 {
			k = 0
		}
	}
	d.gave = k
	var ep drkey.Epoch
	ep.NotBefore = d.start.Add(time.Duration(k) * el)
	ep.NotAfter = d.start.Add(time.Duration(k+1) * el)
	return ep, d.calls, nil
}

func keyBytes(ser int, p drkey.Protocol, src, dst addr.IA, h, dh string) (k drkey.Key) {
	binary.BigEndian.PutUint32(k[0:4], uint32(ser))
	binary.BigEndian.PutUint16(k[4:6], uint16(p))
	k[6], k[7] = byte(src), byte(dst)
	if len(h) > 0 {
		k[8] = h[len(h)-1]
	}
	if len(dh) > 0 {
		k[9] = dh[len(dh)-1]
	}
	k[15] = 0xa5
	return
}

func (d *keyDaemon) DRKeyGetHostASKey(ctx context.Context, m drkey.HostASMeta) (drkey.HostASKey, error) {
	ep, ser, err := d.answer(m.Validity)
	if err != nil {
		return drkey.HostASKey{}, err
	}
	return drkey.HostASKey{ProtoId: m.ProtoId, Epoch: ep, SrcIA: m.SrcIA, DstIA: m.DstIA, SrcHost: m.SrcHost,
		Key: keyBytes(ser, m.ProtoId, m.SrcIA, m.DstIA, m.SrcHost, "")}, nil
}

func (d *keyDaemon) DRKeyGetHostHostKey(ctx context.Context, m drkey.HostHostMeta) (drkey.HostHostKey, error) {
	ep, ser, err := d.answer(m.Validity)
	if err != nil {
		return drkey.HostHostKey{}, err
	}
	return drkey.HostHostKey{ProtoId: m.ProtoId, Epoch: ep, SrcIA: m.SrcIA, DstIA: m.DstIA, SrcHost: m.SrcHost,
		DstHost: m.DstHost, Key: keyBytes(ser, m.ProtoId, m.SrcIA, m.DstIA, m.SrcHost, m.DstHost)}, nil
}

func units(start, t time.Time, unit time.Duration) (int, bool) {
	if t.IsZero() {
		return 0, true
	}
	d := t.Sub(start)
	return int(d / unit), d%unit == 0 && d/unit > -1000000 && d/unit < 1000000
}

func serOf(k drkey.Key) (int, bool) {
	var zero drkey.Key
	if k == zero {
		return 0, true
	}
	return int(binary.BigEndian.Uint32(k[0:4])), k[15] == 0xa5
}

func replayDrkey(t *testing.T, out *vio.Out, b int, c xcase) {
	synctest.Test(t, func(t *testing.T) {
		start := time.Now()
		scion.VerifSetMockKeys(c.Mock)
		defer scion.VerifSetMockKeys(false)
		d := &keyDaemon{start: start, e: c.E}
		f := scion.NewFetcher(d)
		out.Emit(&drec{Op: "reset", Src: c.Src, B: b, Mock: c.Mock, E: c.E, H6: c.H6, Exact: true, RawOK: true, Cache: []slot{}, Rp: -2})
		for _, e := range c.H {
			r := &drec{Op: e.Op, Src: c.Src, B: b, Mock: c.Mock, E: c.E, H6: c.H6, Cache: []slot{}, Rp: -2}
			if e.Op == "adv" {
				time.Sleep(time.Duration(e.V) * dUnit)
				r.D = e.V
				r.T, r.Exact = units(start, time.Now(), dUnit)
				r.RawOK = true
				out.Emit(r)
				continue
			}
			r.Proto, r.SrcIA, r.Dst, r.Host, r.DHost, r.V = e.Proto, e.Src, e.Dst, e.Host, e.DHost, e.V
			now := time.Now()
			v := start.Add(time.Duration(e.V) * dUnit)
			d.arm(e.Rp)
			var (
				err              error
				kp               drkey.Protocol
				ks, kd           addr.IA
				kh, kdh          string
				ep               drkey.Epoch
				key              drkey.Key
				wantHost, wantDH = hosts[e.Host], ""
			)
			switch e.Op {
			case "has":
				var k drkey.HostASKey
				k, err = f.FetchHostASKey(context.Background(), drkey.HostASMeta{
					ProtoId: proto[e.Proto], Validity: v, SrcIA: srcIA[e.Src], DstIA: dstIA[e.Dst], SrcHost: hosts[e.Host]})
				kp, ks, kd, kh, ep, key = k.ProtoId, k.SrcIA, k.DstIA, k.SrcHost, k.Epoch, k.Key
			case "hh":
				var k drkey.HostHostKey
				wantDH = hosts[e.DHost]
				k, err = f.FetchHostHostKey(context.Background(), drkey.HostHostMeta{
					ProtoId: proto[e.Proto], Validity: v, SrcIA: srcIA[e.Src], DstIA: dstIA[e.Dst], SrcHost: hosts[e.Host], DstHost: wantDH})
				kp, ks, kd, kh, kdh, ep, key = k.ProtoId, k.SrcIA, k.DstIA, k.SrcHost, k.DstHost, k.Epoch, k.Key
			default:
				t.Fatalf("behaviour %d: unknown op %q", b, e.Op)
			}
			ok := make([]bool, 0, 12)
			add := func(x int, o bool) int { ok = append(ok, o); return x }
			r.T = add(units(start, now, dUnit))
			r.Err = err != nil
			r.KProto = add(invProto(kp))
			r.KSrc = add(invIA(srcIA, ks))
			r.KDst = add(invIA(dstIA, kd))
			r.KHost = add(invHost(kh))
			r.KDHost = add(invHost(kdh))
			r.Nb = add(units(start, ep.NotBefore, dUnit))
			r.Na = add(units(start, ep.NotAfter, dUnit))
			r.Ser = add(serOf(key))
			d.mu.Lock()
			r.NCalls, r.NFail, r.CSer, r.Rp = d.ncalls, d.nfail, d.last, d.gave
			d.mu.Unlock()
			r.Exact = true
			for _, o := range ok {
				r.Exact = r.Exact && o
			}
			// the per-call clauses on the raw values
			if err == nil {
				r.RawOK = kp == proto[e.Proto] && ks == srcIA[e.Src] && kd == dstIA[e.Dst] && kh == wantHost && kdh == wantDH
				near := !v.Before(now.Add(-6*time.Hour)) && !v.After(now.Add(6*time.Hour))
				if !c.Mock || near {
					r.RawOK = r.RawOK && ep.Contains(v)
				}
			} else {
				var zk drkey.Key
				r.RawOK = key == zk && kp == 0 && ks == 0 && kd == 0 && kh == "" && kdh == "" &&
					ep.NotBefore.IsZero() && ep.NotAfter.IsZero() && errors.Is(err, errDaemon)
			}
			// projection of the cache (strict validation only)
			slots := f.VerifSlots()
			for i, k := range f.VerifCached() {
				s := slot{}
				var o1, o2, o3, o4, o5, o6, o7, o8 bool
				s.Slot, o1 = invIA(dstIA, addr.IA(slots[i]))
				s.Proto, o2 = invProto(k.ProtoId)
				s.Src, o3 = invIA(srcIA, k.SrcIA)
				s.Dst, o4 = invIA(dstIA, k.DstIA)
				s.Host, o5 = invHost(k.SrcHost)
				s.Nb, o6 = units(start, k.Epoch.NotBefore, dUnit)
				s.Na, o7 = units(start, k.Epoch.NotAfter, dUnit)
				s.Ser, o8 = serOf(k.Key)
				r.Exact = r.Exact && o1 && o2 && o3 && o4 && o5 && o6 && o7 && o8
				r.Cache = append(r.Cache, s)
			}
			r.HasX, r.XErr, r.XNb, r.XNa, r.XSer, r.XCalls = true, e.Err, e.Nb, e.Na, e.Ser, e.NCalls
			out.Emit(r)
		}
	})
}

// ==================================================================== Pather

type pper struct {
	Fail bool `json:"fail"`
	N    int  `json:"n"`
}

type pscript struct {
	Lfail bool   `json:"lfail"`
	Ia    int    `json:"ia"`
	D     int    `json:"d"`
	Per   []pper `json:"per"`
}

type prec struct {
	Op      string `json:"op"` // reset | upd | lia | lk | started | adv | get | ia
	Src     string `json:"gsrc"`
	B       int    `json:"b"`
	T       int    `json:"t"`
	Exact   bool   `json:"exact"`
	Dl      []int  `json:"dl"`
	U       int    `json:"u"`
	D       int    `json:"d"`
	Lfail   bool   `json:"lfail"`
	Ia      int    `json:"ia"`
	Per     []pper `json:"per"`
	Planned bool   `json:"planned"`
	Pos     int    `json:"pos"`
	Dst     int    `json:"dst"`
	SrcIA   int    `json:"src"`
	Refresh bool   `json:"refresh"`
	Fail    bool   `json:"fail"`
	Ids     []int  `json:"ids"`
	AliasOK bool   `json:"alias_ok"`
	HasX    bool   `json:"hasx"`
	XIds    []int  `json:"xids"`
	XIa     int    `json:"xia"`
}

const pUnit = 5 * time.Second // model unit of the Pather behaviours (P = 3: 15 s)

// fakePath is an snet.Path with an identity.
type fakePath struct {
	id       int
	src, dst addr.IA
}

func (p *fakePath) UnderlayNextHop() *net.UDPAddr { return nil }
func (p *fakePath) Dataplane() snet.DataplanePath { return nil }
func (p *fakePath) Source() addr.IA               { return p.src }
func (p *fakePath) Destination() addr.IA          { return p.dst }
func (p *fakePath) Metadata() *snet.PathMetadata  { return nil }

func idsOf(ps []snet.Path) ([]int, bool) {
	res := make([]int, 0, len(ps))
	ok := true
	for _, p := range ps {
		if fp, is := p.(*fakePath); is && fp != nil && fp.id > 0 {
			res = append(res, fp.id)
		} else {
			res = append(res, 0)
			ok = false
		}
	}
	return res, ok
}

// pathDaemon answers LocalIA and Paths according to one script per update.
type pathDaemon struct {
	daemon.Connector
	mu      sync.Mutex
	out     *vio.Out
	gsrc    string
	b       int
	start   time.Time
	dl      []int
	scripts []pscript
	u       int
	cur     pscript
	pos     int // position of the latest lookup of the running update in dl
	stop    bool
	exited  bool
	quiet   bool // no records (race driver)
}

func (d *pathDaemon) rec(op string) *prec {
	t, ex := units(d.start, time.Now(), pUnit)
	return &prec{Op: op, Src: d.gsrc, B: d.b, T: t, Exact: ex, U: d.u, Dl: []int{}, Per: []pper{}, Ids: []int{}, XIds: []int{}, AliasOK: true}
}

func (d *pathDaemon) emit(r *prec) {
	if !d.quiet {
		d.out.Emit(r)
	}
}

func (d *pathDaemon) LocalIA(ctx context.Context) (addr.IA, error) {
	d.mu.Lock()
	if d.stop {
		d.exited = true
		d.mu.Unlock()
		runtime.Goexit()
	}
	d.u++
	planned := d.u <= len(d.scripts)
	if planned {
		d.cur = d.scripts[d.u-1]
	} else { // an update the specification did not foresee: plain answers
		d.cur = pscript{Ia: 1}
		for range d.dl {
			d.cur.Per = append(d.cur.Per, pper{N: 1})
		}
	}
	d.pos = 0
	s := d.cur
	r := d.rec("upd")
	r.D, r.Lfail, r.Ia, r.Per, r.Planned = s.D, s.Lfail, s.Ia, append([]pper{}, s.Per...), planned
	d.emit(r)
	d.mu.Unlock()
	if s.D > 0 {
		time.Sleep(time.Duration(s.D) * pUnit)
	}
	d.mu.Lock()
	defer d.mu.Unlock()
	if d.stop {
		d.exited = true
		runtime.Goexit() // runs the deferred Unlock
	}
	if d.u == 1 && s.D > 0 {
		// inside StartPather the caller is blocked: the clock step is recorded here
		r = d.rec("adv")
		r.D = s.D
		d.emit(r)
	}
	r = d.rec("lia")
	r.Fail, r.Ia = s.Lfail, s.Ia
	d.emit(r)
	if s.Lfail {
		return 0, errDaemon
	}
	return srcIA[s.Ia], nil
}

func (d *pathDaemon) Paths(ctx context.Context, dst, src addr.IA, f daemon.PathReqFlags) ([]snet.Path, error) {
	d.mu.Lock()
	defer d.mu.Unlock()
	md, ok1 := invIA(dstIA, dst)
	ms, ok2 := invIA(srcIA, src)
	// the position of dstIAs this lookup belongs to: the next one holding dst
	pos := 0
	for i := d.pos; i < len(d.dl); i++ {
		if d.dl[i] == md {
			pos = i + 1
			break
		}
	}
	per := pper{N: 1}
	if pos > 0 {
		d.pos = pos
		if pos <= len(d.cur.Per) {
			per = d.cur.Per[pos-1]
		}
	}
	r := d.rec("lk")
	r.Exact = r.Exact && ok1 && ok2 && pos > 0
	r.Pos, r.Dst, r.SrcIA, r.Refresh, r.Fail = pos, md, ms, f.Refresh, per.Fail
	if per.Fail {
		d.emit(r)
		return nil, errDaemon
	}
	ps := make([]snet.Path, 0, per.N)
	for i := 1; i <= per.N; i++ {
		id := ((d.u*10+pos)*10+md)*10 + i
		ps = append(ps, &fakePath{id: id, src: src, dst: dst})
		r.Ids = append(r.Ids, id)
	}
	d.emit(r)
	return ps, nil
}

func quietLog() *slog.Logger { return slog.New(slog.NewTextHandler(io.Discard, nil)) }

func replayPather(t *testing.T, out *vio.Out, b int, c xcase) {
	synctest.Test(t, func(t *testing.T) {
		start := time.Now()
		d := &pathDaemon{out: out, gsrc: c.Src, b: b, start: start, dl: c.Dl}
		var dsts []addr.IA
		for _, x := range c.Dl {
			dsts = append(dsts, dstIA[x])
		}
		for _, e := range c.H {
			if e.Op == "upd" {
				d.scripts = append(d.scripts, e.S)
			}
		}
		scion.VerifDaemonConnector = func(ctx context.Context, a string) daemon.Connector { return d }
		defer func() { scion.VerifDaemonConnector = nil }()
		r := d.rec("reset")
		r.U, r.Dl = 0, append([]int{}, c.Dl...)
		out.Emit(r)
		p := scion.StartPather(context.Background(), quietLog(), "scripted", dsts)
		synctest.Wait()
		d.mu.Lock()
		out.Emit(d.rec("started"))
		d.mu.Unlock()
		poison := &fakePath{id: 999999999}
		for _, e := range c.H {
			if e.Ph != "run" {
				continue // inside StartPather: the caller is blocked, time passes in the daemon
			}
			switch e.Op {
			case "adv":
				// recorded first: what the refresher does at the instant of arrival follows
				d.mu.Lock()
				r := d.rec("adv")
				r.D = e.D
				r.T, r.Exact = units(start, time.Now().Add(time.Duration(e.D)*pUnit), pUnit)
				out.Emit(r)
				d.mu.Unlock()
				time.Sleep(time.Duration(e.D) * pUnit)
				synctest.Wait()
			case "get":
				synctest.Wait()
				ps := p.Paths(dstIA[e.Dst])
				ids, ok := idsOf(ps)
				// what callers do with the result (MeasureClockOffsetSCION moves and
				// truncates in place); then ask again
				for i := range ps {
					ps[i] = poison
				}
				ps = append(ps[:0], poison, poison, poison)
				ids2, _ := idsOf(p.Paths(dstIA[e.Dst]))
				d.mu.Lock()
				r := d.rec("get")
				r.Exact = r.Exact && ok
				r.Dst, r.Ids = e.Dst, ids
				r.AliasOK = fmt.Sprint(ids) == fmt.Sprint(ids2)
				r.HasX, r.XIds = true, append([]int{}, e.Ids...)
				out.Emit(r)
				d.mu.Unlock()
			case "ia":
				synctest.Wait()
				ia, ok := invIA(srcIA, p.LocalIA())
				d.mu.Lock()
				r := d.rec("ia")
				r.Exact = r.Exact && ok
				r.Ia, r.HasX, r.XIa = ia, true, e.Ia
				out.Emit(r)
				d.mu.Unlock()
			case "upd", "wake":
				// done by the refresher itself
			default:
				t.Fatalf("behaviour %d: unknown op %q", b, e.Op)
			}
		}
		d.shutdown()
	})
}

// shutdown: the refresher goroutine has no way to end (it ignores its context
// and never stops its ticker), and a bubble cannot be left while it lives: the
// scripted daemon ends it at its next LocalIA call.
func (d *pathDaemon) shutdown() {
	d.mu.Lock()
	d.stop = true
	d.mu.Unlock()
	for i := 0; i < 5000; i++ {
		d.mu.Lock()
		done := d.exited
		d.mu.Unlock()
		if done {
			return
		}
		time.Sleep(pUnit)
		synctest.Wait()
	}
}

// ===================================================================== tests

func TestX02(t *testing.T) {
	cases := vio.ReadCases[xcase](t)
	outD := vio.CreateAt(t, os.Getenv("VERIF_OUT_D"))
	defer outD.Close()
	outP := vio.CreateAt(t, os.Getenv("VERIF_OUT_P"))
	defer outP.Close()
	nd, np := 0, 0
	for i, c := range cases {
		switch c.Kind {
		case "drkey":
			nd++
			replayDrkey(t, outD, i+1, c)
		case "pather":
			np++
			replayPather(t, outP, i+1, c)
		default:
			t.Fatalf("case %d: unknown kind %q", i+1, c.Kind)
		}
	}
	fmt.Printf("X02STATS drkey=%d pather=%d drecs=%d precs=%d\n", nd, np, outD.N, outP.N)
	if outD.N == 0 && outP.N == 0 {
		t.Fatal("no record produced")
	}
}

// TestX02Env: USE_MOCK_KEYS=true (set by the check for this process) is honoured
// without any hook: no daemon is contacted (the connector is nil).
func TestX02Env(t *testing.T) {
	want := os.Getenv("USE_MOCK_KEYS") == "true" || os.Getenv("USE_MOCK_KEYS") == "TRUE"
	got := scion.UseMockKeys()
	res := "ok"
	if got != want {
		res = "mismatch"
	}
	if got {
		f := scion.NewFetcher(nil)
		v := time.Now()
		k, err := f.FetchHostASKey(context.Background(), drkey.HostASMeta{ProtoId: proto[1], Validity: v, SrcIA: srcIA[1], DstIA: dstIA[1], SrcHost: hosts[1]})
		k2, err2 := f.FetchHostHostKey(context.Background(), drkey.HostHostMeta{ProtoId: proto[1], Validity: v, SrcIA: srcIA[1], DstIA: dstIA[1], SrcHost: hosts[1], DstHost: hosts[2]})
		if err != nil || err2 != nil || !k.Epoch.Contains(v) || !k2.Epoch.Contains(v) || k.DstIA != dstIA[1] || k2.DstHost != hosts[2] {
			res = "mockfail"
		}
	}
	fmt.Printf("X02ENV want=%v got=%v result=%s\n", want, got, res)
}

// TestX02Race: build with -race.
func TestX02Race(t *testing.T) {
	// (1) one Fetcher shared by goroutines calling FetchHostHostKey (client side)
	for _, mock := range []bool{false, true} {
		synctest.Test(t, func(t *testing.T) {
			scion.VerifSetMockKeys(mock)
			defer scion.VerifSetMockKeys(false)
			d := &keyDaemon{start: time.Now(), e: 2, rp: -2}
			f := scion.NewFetcher(d)
			var wg sync.WaitGroup
			for g := 0; g < 8; g++ {
				wg.Add(1)
				go func(g int) {
					defer wg.Done()
					for i := 0; i < 50; i++ {
						v := time.Now().Add(time.Duration(i%3) * dUnit)
						k, err := f.FetchHostHostKey(context.Background(), drkey.HostHostMeta{ProtoId: proto[1], Validity: v,
							SrcIA: srcIA[1], DstIA: dstIA[1+g%2], SrcHost: hosts[1], DstHost: hosts[2]})
						_, _ = k, err // results are judged by TestX02; this test is about races only
						time.Sleep(time.Second)
					}
				}(g)
			}
			wg.Wait()
		})
	}
	// (2) one Fetcher per goroutine for FetchHostASKey (server side), one daemon
	synctest.Test(t, func(t *testing.T) {
		d := &keyDaemon{start: time.Now(), e: 2, rp: -2}
		var wg sync.WaitGroup
		for g := 0; g < 8; g++ {
			wg.Add(1)
			go func(g int) {
				defer wg.Done()
				f := scion.NewFetcher(d)
				for i := 0; i < 50; i++ {
					v := time.Now()
					k, err := f.FetchHostASKey(context.Background(), drkey.HostASMeta{ProtoId: proto[1], Validity: v,
						SrcIA: srcIA[1], DstIA: dstIA[1+(g+i)%2], SrcHost: hosts[1]})
					_, _ = k, err
					time.Sleep(time.Hour)
				}
			}(g)
		}
		wg.Wait()
	})
	// (3) callers of the Pather while the refresher runs
	rng := vio.Rand()
	for n := 0; n < 4; n++ {
		synctest.Test(t, func(t *testing.T) {
			d := &pathDaemon{start: time.Now(), dl: []int{1, 2, 1}, quiet: true}
			for i := 0; i < 40; i++ {
				s := pscript{Ia: 1 + rng.Intn(2), Lfail: rng.Intn(6) == 0, D: []int{0, 0, 1, 4}[rng.Intn(4)]}
				for range d.dl {
					s.Per = append(s.Per, pper{Fail: rng.Intn(5) == 0, N: rng.Intn(3)})
				}
				d.scripts = append(d.scripts, s)
			}
			scion.VerifDaemonConnector = func(ctx context.Context, a string) daemon.Connector { return d }
			defer func() { scion.VerifDaemonConnector = nil }()
			p := scion.StartPather(context.Background(), quietLog(), "scripted", []addr.IA{dstIA[1], dstIA[2], dstIA[1]})
			poison := &fakePath{id: 999999999}
			var wg sync.WaitGroup
			for g := 0; g < 6; g++ {
				wg.Add(1)
				go func(g int) {
					defer wg.Done()
					for i := 0; i < 300; i++ {
						ps := p.Paths(dstIA[1+(g+i)%3])
						for _, x := range ps {
							if x == poison {
								t.Errorf("Paths returned a slice that aliases one handed out before")
							}
						}
						for j := range ps {
							ps[j] = poison
						}
						_ = append(ps[:0], poison, poison, poison)
						_ = p.LocalIA()
						time.Sleep(time.Duration(1+g) * time.Second)
					}
				}(g)
			}
			wg.Wait()
			d.shutdown()
		})
	}
	fmt.Printf("X02STATS race=done\n")
}
