------------------------------ MODULE NtsKeGen ------------------------------
(***************************************************************************)
(* Behaviour generator for the C20 conformance driver (harness/c20).       *)
(* A history is the sequence of operations on ONE Fetcher:                 *)
(*   [op |-> "fetch", via, alpn, recs, cut, stall, stallw]  a FetchData     *)
(*        call - made directly (via "fetch") or by the NTP client that is   *)
(*        about to send a request: client.MeasureClockOffsetIP /           *)
(*        MeasureClockOffsetSCION with the configured remote address (via  *)
(*        "measure"; where the request goes is NtsKe's dest); "any": left  *)
(*        to the driver -                                                  *)
(*        together with the script the peer follows if the call dials      *)
(*        ("dflt": the model did not dial; the driver keeps a well-formed  *)
(*        script ready in case the real code does); stallw # "none": after *)
(*        `stall` complete records (and, "hdr" / "body", a part of the     *)
(*        next one) the peer stalls until the deadline of the call's       *)
(*        context has passed, then sends the rest                          *)
(*   [op |-> "store"]                   a StoreCookie call                 *)
(*   GSpec  exhaustive: every history within the bounds (hist is part of   *)
(*          the state, so TLC visits every script exactly once)            *)
(*          (with CONSTRAINT Decorated: only almost-acceptable messages;   *)
(*          with CONSTRAINT Naming: acceptable messages that name no       *)
(*          server / a host / a port / both, in any order and position)    *)
(*   SSpec  for `tlc -simulate`: random walks through the same actions     *)
(*          with RandomElement draws biased towards long, well-formed      *)
(*          messages, so that failures happen late and pools get used up   *)
(* RunAgrees ties the function RunCall (used by the trace specification's  *)
(* strict mode) to the step-by-step actions of NtsKe.                      *)
(***************************************************************************)
EXTENDS NtsKeMC, Json

CONSTANTS Tails,  \* TRUE: the peer's message may go on after the record at which the client gave up
          Vias    \* who makes the FetchData calls: subset of {"fetch", "measure", "any"}

VARIABLES hist,   \* the history so far
          pre     \* Fetcher.data and session count before the current / last FetchData call

gvars == <<vars, hist, pre>>

Op(a, v) == [op |-> "fetch", via |-> v, alpn |-> a, recs |-> << >>, cut |-> "none", stall |-> 0, stallw |-> "none"]
StoreOp == [op |-> "store", via |-> "-", alpn |-> "-", recs |-> << >>, cut |-> "none", stall |-> 0, stallw |-> "none"]
Last == Len(hist)
Snap == [data |-> data, sess |-> sess]

GInit == Init /\ hist = << >> /\ pre = [data |-> Data0, sess |-> 0]

GCached  == FetchCached /\ pre' = Snap /\ \E v \in Vias : hist' = Append(hist, Op("dflt", v))
GDial(a) == Dial(a) /\ pre' = Snap /\ \E v \in Vias : hist' = Append(hist, Op(a, v))
GLocal   == (CheckAlpn \/ SendRequest \/ Export \/ Finish) /\ UNCHANGED <<hist, pre>>
GClose   == PeerClose /\ UNCHANGED <<hist, pre>>
GRead(r) == ReadRecord(r) /\ hist' = [hist EXCEPT ![Last].recs = Append(@, r)] /\ UNCHANGED pre
GCut(r, w) == /\ ReadCut(r, w)
              /\ hist' = [hist EXCEPT ![Last].recs = Append(@, r), ![Last].cut = w]
              /\ UNCHANGED pre
GStore   == StoreCookie /\ hist' = Append(hist, StoreOp) /\ UNCHANGED pre
\* the deadline passes while the peer is silent; what the peer sends afterwards on
\* the connection of a call that has returned belongs to the same script
GStall(w, r) == /\ StallPastDeadline(w, r)
                /\ hist' = [hist EXCEPT ![Last].stall = Len(hist[Last].recs), ![Last].stallw = w]
                /\ UNCHANGED pre
GLate(r) == LateRecord(r) /\ hist' = [hist EXCEPT ![Last].recs = Append(@, r)] /\ UNCHANGED pre
GLateClose == /\ LateClose
              /\ hist' = IF pend.w = "no" THEN hist
                         ELSE [hist EXCEPT ![Last].recs = Append(@, pend.r), ![Last].cut = pend.w]
              /\ UNCHANGED pre

\* What the peer sends after the record that made this client give up (an error
\* record, an unrecognised critical record) is of no consequence for the
\* specification's client, but it is part of the peer's behaviour: an
\* implementation that wrongly reads on will see it.
TailOpen ==
  /\ Tails /\ conn = "failed" /\ ~late.open /\ hist # << >>
  /\ LET o == hist[Last] IN
       /\ o.op = "fetch" /\ o.cut = "none" /\ o.recs # << >>
       /\ \E i \in DOMAIN o.recs : Stops(o.recs[i])
       /\ o.recs[Len(o.recs)] # "eom" /\ Len(o.recs) < MaxRecs
GTail(r) == /\ TailOpen
            /\ hist' = [hist EXCEPT ![Last].recs = Append(@, r)]
            /\ UNCHANGED <<vars, pre>>

GNext ==
  \/ GCached
  \/ \E a \in Alpns : GDial(a)
  \/ GLocal \/ GClose
  \/ \E r \in Alphabet : GRead(r)
  \/ \E r \in CutRecs, w \in {"hdr", "body"} : GCut(r, w)
  \/ GStore
  \/ \E r \in Alphabet : GTail(r)
  \/ \E x \in StallPoints : GStall(x[1], x[2])
  \/ \E r \in Alphabet : GLate(r)
  \/ GLateClose

GSpec == GInit /\ [][GNext]_gvars

\* ------------------------------------------------------------ simulation
Pick(S) == RandomElement(S)
PickSeq(s) == s[Pick(1 .. Len(s))]
\* before / after the message has what it needs to be accepted
LikelyMid == <<"np", "a15", "a15", "a15", "ck", "ck", "ck", "ck", "sA", "sB", "pA", "pB", "un", "un0", "un1">>
LikelyEnd == <<"ck", "ck", "un", "un0", "sA", "pB", "eom", "eom", "eom", "eom", "eom">>
LikelyTail == <<"a15", "ck", "ck", "np", "eom", "eom">>

SNext ==
  \/ /\ Quiet
     /\ \E k \in {Pick(1 .. 12)} :
          IF TailOpen /\ k <= 9 THEN GTail(PickSeq(LikelyTail))
          ELSE IF data.pool # << >>
          THEN IF k <= 2 /\ ENABLED StoreCookie THEN GStore ELSE GCached
          ELSE IF k = 1 /\ ENABLED StoreCookie THEN GStore
          ELSE \E a \in {IF k <= 9 THEN "ntske/1" ELSE Pick(Alpns)} : GDial(a)
  \/ GLocal
  \/ /\ conn = "reading" /\ pend.w = "no"
     /\ \E k \in {Pick(1 .. 22)} :
          IF k >= 21 /\ ctx = "live" /\ nstalls < MaxStalls
          THEN \E x \in {Pick(StallPoints)} :
                 IF x[1] = "bnd" \/ (sv.n < MaxRecs /\ x[2] \in Alphabet /\ (x[1] = "body" => HasBody(x[2])))
                 THEN GStall(x[1], x[2]) ELSE GStall("bnd", "")
          ELSE IF k = 1 THEN GClose
          ELSE IF k = 2
          THEN \E r \in {Pick(CutRecs)}, w \in {Pick({"hdr", "body"})} :
                 IF sv.n < MaxRecs THEN GCut(r, IF HasBody(r) THEN w ELSE "hdr") ELSE GClose
          ELSE \E r \in {IF k <= 4 THEN Pick(Alphabet)
                          ELSE IF sv.a15 /\ sv.nck >= 1 THEN PickSeq(LikelyEnd) ELSE PickSeq(LikelyMid)} :
                 IF sv.n < MaxRecs THEN GRead(r) ELSE GClose
  \* the peer completes the record it stalled in (seldom: closes inside it)
  \/ /\ conn = "reading" /\ pend.w # "no"
     /\ \E k \in {Pick(1 .. 8)} :
          IF k = 1 THEN GCut(pend.r, IF pend.w = "body" \/ ~HasBody(pend.r) THEN pend.w ELSE Pick({"hdr", "body"}))
          ELSE GRead(pend.r)
  \* the call has returned at its deadline; the peer goes on
  \/ /\ conn = "failed" /\ late.open
     /\ \E k \in {Pick(1 .. 6)} :
          IF k = 1 \/ sv.eom \/ sv.n >= MaxRecs THEN GLateClose
          ELSE GLate(IF pend.w # "no" THEN pend.r
                     ELSE IF sv.a15 /\ sv.nck >= 1 THEN PickSeq(LikelyEnd) ELSE PickSeq(LikelyMid))

SSpec == GInit /\ [][SNext]_gvars

\* ------------------------------------------------------- decorated family
\* state constraint for the exhaustive generator: scripts that consist of AEAD(15)
\* and cookie records plus AT MOST ONE other record before the end (the messages
\* that succeed or just fail to: every record kind in every position of an
\* otherwise acceptable message)
Plain == {"a15", "ck", "eom"}
Decorated ==
  hist = << >> \/
    LET rs == hist[Last].recs
    IN Cardinality({i \in DOMAIN rs : rs[i] \notin Plain}) <= 1

\* ---------------------------------------------------------- body length family
\* state constraint for the exhaustive generator: messages made of at most one
\* AEAD(15) record, one (deep: two) cookie records and AT MOST TWO records of an
\* unrecognised type (critical or not) or Warning records, each with a body of
\* length 0, 1 or typical, in any order and position (Alphabet <- AlphaLen):
\* what a record's LENGTH does to the client's treatment of it and of the
\* records that follow it
Occ(rs, S) == Cardinality({i \in DOMAIN rs : rs[i] \in S})
LenFam(n, c) ==
  hist = << >> \/
    LET rs == hist[Last].recs
    IN /\ Occ(rs, UnkCrit \cup UnkNon \cup Warns) <= n
       /\ Occ(rs, {"a15"}) <= 1 /\ Occ(rs, {"ck"}) <= c
LenFamily  == LenFam(2, 1)
LenFamilyDeep == LenFam(2, 2)
\* (the QUIC twin: at most one such record)
LenFamily1 == LenFam(1, 1)

\* --------------------------------------------------------------- naming family
\* state constraint for the exhaustive generator: messages made of one AEAD(15)
\* record, one or two cookie records and at most MaxNaming Server / Port records,
\* in any order (what the NTP client that made the call does with the endpoint
\* named - or not named - by an exchange that succeeds); emitted are the
\* histories all of whose exchanges are of that kind (the others are prefixes)
NamingRecs == {"sA", "sB", "sH", "pA", "pB"}
MaxNaming == 2
MaxNaming3 == 3
Naming ==
  \A j \in DOMAIN hist :
    LET rs == hist[j].recs
    IN /\ \A i \in DOMAIN rs : rs[i] \in Plain \cup NamingRecs
       /\ Occ(rs, NamingRecs) <= MaxNaming /\ Occ(rs, {"a15"}) <= 1 /\ Occ(rs, {"ck"}) <= 2
Acceptable(rs) == Occ(rs, {"a15"}) = 1 /\ Occ(rs, {"ck"}) >= 1 /\ Occ(rs, {"eom"}) = 1
\* (constraint for histories of several exchanges: only acceptable ones are followed by another)
NamingChain == \A j \in 1 .. Len(hist) - 1 : hist[j].alpn = "dflt" \/ Acceptable(hist[j].recs)
AllAcceptable == \A j \in DOMAIN hist : hist[j].alpn = "dflt" \/ Acceptable(hist[j].recs)

\* ------------------------------------------------------------- emitters
\* no further FetchData call is possible within the bounds
Done == /\ Quiet /\ hist # << >>
        /\ ncalls = MaxCalls \/ (data.pool = << >> /\ ndials = MaxDials)
Emit == Done => PrintT(<<"CASE", ToJson([h |-> hist])>>)
\* (TLC evaluates invariants also on the states a CONSTRAINT discards)
EmitDecorated == (Done /\ Decorated) => PrintT(<<"CASE", ToJson([h |-> hist])>>)

EmitLenIf(c) == (Done /\ c /\ Occ(hist[Last].recs, LenRecs) >= 1) => PrintT(<<"CASE", ToJson([h |-> hist])>>)
EmitLen     == EmitLenIf(LenFamily)
EmitLenDeep == EmitLenIf(LenFamilyDeep)
EmitLen1    == EmitLenIf(LenFamily1)

EmitNaming == (Done /\ Naming /\ AllAcceptable) => PrintT(<<"CASE", ToJson([h |-> hist])>>)

\* the stall family: single exchanges in which the peer stalls past the deadline
EmitStalled == (Done /\ hist[Last].stallw # "none") => PrintT(<<"CASE", ToJson([h |-> hist])>>)

\* the function used by strict trace validation computes what the actions do
RunAgrees ==
  (Idle /\ hist # << >> /\ hist[Last].op = "fetch") =>
     LET r == RunCall(pre.data, pre.sess, hist[Last])
     IN /\ r.ok = ret.ok /\ r.exch = ret.exch
        /\ r.post = data /\ r.ret = ret.data /\ r.sess = sess
=============================================================================
