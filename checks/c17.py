"""C17 - offset filters implement their selection rule and reset cleanly.

spec/Filters.tla (LuckyPacketFilter modelled completely, NtimedFilter as a
control skeleton), exhaustive TLC runs on the property section, TLC-generated
behaviours replayed on the real filters (harness/c17), the recorded events
validated by TLC against spec/trace/FiltersTrace.tla (monitor decides,
strict reports drift).  The trace is validated in parallel shards.
"""
import copy
import os
import re
from concurrent.futures import ThreadPoolExecutor

import vlib

MON = ("RRule", "RUnconf", "RRawWhen", "RHistIndep")
STRICT = ("SLucky", "SLReset", "SNtimed", "SNState")


def _cfg(ctx, name, tracefile, invs):
    p = ctx.path(name)
    with open(p, "w") as f:
        f.write('SPECIFICATION TSpec\nCONSTANTS\n  TraceFile = "%s"\nINVARIANTS %s\n' % (tracefile, " ".join(invs)))
    return p


def _shards(recs, target):
    """Cut at history boundaries: a lucky history starts with lnew, a group of
    Ntimed runs (sharing the memo of the history-independence monitor) with ngroup."""
    res, cur = [], []
    for r in recs:
        if r["ev"] in ("lnew", "ngroup") and len(cur) >= target:
            res.append(cur)
            cur = []
        cur.append(r)
    if cur:
        res.append(cur)
    return res


def _history(part, l):
    """Events of the history / group that contains position l (1-based) up to l."""
    i = l - 1
    while i > 0 and part[i]["ev"] not in ("lnew", "ngroup"):
        i -= 1
    return part[i:l]


def _validate(ctx, tag, part, invs, timeout, heap):
    tf = "trace_%s.ndjson" % tag
    tp = ctx.path(tf)
    vlib.write_ndjson(tp, part)
    cn = "FiltersTrace_%s.cfg" % tag
    cp = _cfg(ctx, cn, tf, invs)
    try:
        return ctx.validate("FiltersTrace", cn, tp, trace_name=tf, timeout=timeout, workers=1,
                            extra_files={cn: cp}, heap=heap)
    finally:
        for p in (tp, os.path.join(ctx.specdir(), tf)):
            try:
                os.remove(p)
            except OSError:
                pass


def _judged_stats(recs):
    """Which recorded events the monitor actually judges (mirrors the ghosts of the
    trace specification; statistics only, no verdict)."""
    st = dict(lucky_runs=0, lucky_samples=0, rule_judged=0, rule_judged_multi=0, unconf_judged=0,
              ntimed_runs=0, ntimed_groups=0, ntimed_samples=0, raw_cnt=0, raw_inb=0, hist_pairs=0,
              branches={}, nolog=0)
    nontrivial = set()      # indices of runs with a non-degenerate judged output
    run = -1
    cap, lastn, since, memo = 0, [], (), set()
    for r in recs:
        ev = r["ev"]
        if ev == "lnew":
            run += 1
            st["lucky_runs"] += 1
            cap, lastn = r["cap"], []
        elif ev == "lr":
            lastn = []
        elif ev == "ls":
            st["lucky_samples"] += 1
            lastn = (lastn + [r["rtd"]])[-max(cap, 1):]
            if cap == 0:
                st["unconf_judged"] += 1
                nontrivial.add(run)
            elif len(set(lastn)) == len(lastn):
                st["rule_judged"] += 1
                if len(lastn) > 1:
                    st["rule_judged_multi"] += 1
                    nontrivial.add(run)
        elif ev == "ngroup":
            st["ntimed_groups"] += 1
            memo = set()
        elif ev == "nnew":
            run += 1
            st["ntimed_runs"] += 1
            since = ()
        elif ev in ("nr", "ne"):
            since = ()
        elif ev == "ns":
            st["ntimed_samples"] += 1
            since = since + (r["id"],)
            if since in memo:
                st["hist_pairs"] += 1
                nontrivial.add(run)
            memo.add(since)
            if len(since) <= 3:
                st["raw_cnt"] += 1
            elif r["inb"]:
                st["raw_inb"] += 1
                nontrivial.add(run)
            if r["logok"]:
                st["branches"][str(r["br"])] = st["branches"].get(str(r["br"]), 0) + 1
            else:
                st["nolog"] += 1
    return st, nontrivial


def run(ctx):
    q = ctx.quick
    # several TLC JVMs run side by side below: without a cap every one starts a GC
    # thread per core and they spend their time in the kernel (measured 3x slower)
    os.environ["JAVA_TOOL_OPTIONS"] = (os.environ.get("JAVA_TOOL_OPTIONS", "") + " -XX:ParallelGCThreads=2").strip()
    # 1. design level: the property section of Filters.tla, exhaustively (small scope)
    r = ctx.tlc("FiltersMC", "Filters_exh.cfg" if q else "Filters_deep.cfg", timeout=900, tag="lucky-exh")
    ctx.log("TLC lucky exhaustive: %d distinct states (%ss)" % (r["distinct"], r["wall_s"]))
    r = ctx.tlc("FiltersMC", "Filters_nexh.cfg" if q else "Filters_ndeep.cfg", timeout=900, tag="ntimed-exh")
    ctx.log("TLC ntimed skeleton exhaustive: %d distinct states (%ss)" % (r["distinct"], r["wall_s"]))

    # 2. spec -> code: TLC enumerates the behaviours
    gens = ["Filters_gen.cfg", "Filters_ngen.cfg"] if q else \
           ["Filters_gen3.cfg", "Filters_gendeep.cfg", "Filters_ngendeep.cfg"]
    with ThreadPoolExecutor(max_workers=3) as ex:
        outs = list(ex.map(lambda c: ctx.tlc("FiltersMC", c, workers=1, timeout=1500, tag="gen:" + c), gens))
    cases = []
    for g in outs:
        cases += ctx.emitted(g["out"])
    nl = sum(1 for c in cases if c["m"] == "lucky")
    nn = len(cases) - nl
    ctx.log("TLC generated %d lucky and %d ntimed behaviours" % (nl, nn))
    if nl < 5000 or nn < 5000:
        raise vlib.Inconclusive("behaviour generator produced only %d/%d behaviours" % (nl, nn))
    cp = ctx.path("cases.ndjson")
    vlib.write_ndjson(cp, cases)

    # 3. the real filters
    trace, out = ctx.godriver("c17", "TestC17", cases=cp, timeout=1500, extra=("-v",))
    m = re.search(r"C17STATS (.*)", out)
    dstats = dict(kv.split("=") for kv in m.group(1).split()) if m else {}
    recs = vlib.read_ndjson(trace)
    ctx.log("driver: %d events (%s)" % (len(recs), m.group(1) if m else "no stats"))
    if not recs:
        raise vlib.Inconclusive("driver recorded nothing")

    # 4. code -> spec: monitor decides, strict reports drift
    target = 45000 if q else 240000
    shards = _shards(recs, target)
    heap = "2g" if q else "4g"
    par = 6

    def work(ix):
        part = shards[ix]
        ok, l, inv, tout = _validate(ctx, "s%d" % ix, part, MON + STRICT, 1500, heap)
        if ok:
            return ix, None, None, None
        if inv in STRICT:
            # does the property section hold on the whole shard?
            ok2, l2, inv2, _ = _validate(ctx, "m%d" % ix, part, MON, 1500, heap)
            if ok2:
                return ix, "drift", l, inv
            return ix, "violation", l2, inv2
        return ix, "violation", l, inv

    # self-check of the binding: a corrupted recorded field must be rejected by the monitor
    def selfcheck(kind):
        if kind == "lucky":
            i0 = next((i for i, r in enumerate(recs) if r["ev"] == "lnew" and r["cap"] == 3 and r["src"] == "gen"), 0)
        else:
            i0 = next((i for i, r in enumerate(recs) if r["ev"] == "ngroup"), 0)
        part = copy.deepcopy(recs[i0:i0 + 3000])
        hit = None
        if kind == "lucky":
            cap, lastn = 0, []
            for i, r in enumerate(part):
                if r["ev"] == "lnew":
                    cap, lastn = r["cap"], []
                elif r["ev"] == "lr":
                    lastn = []
                elif r["ev"] == "ls":
                    lastn = (lastn + [r["rtd"]])[-max(cap, 1):]
                    if cap > 0 and len(lastn) > 1 and len(set(lastn)) == len(lastn) and i > 100:
                        r["out"] += 5
                        hit = i
                        break
        else:
            # first sample of a twin run (fresh filter): its pair is already in the memo
            for i, r in enumerate(part):
                if i > 100 and r["ev"] == "ns" and part[i - 1]["ev"] == "nnew" and part[i - 2]["ev"] != "ngroup":
                    if kind == "ntimed-pair":
                        r["o"] = [r["o"][0], r["o"][1], r["o"][2] ^ 1]
                    else:
                        r["err"] = r["tol"] + 1      # first sample since creation: must be raw
                    hit = i
                    break
        if hit is None:
            return kind, None
        ok, l, inv, _ = _validate(ctx, "c" + kind, part, MON, 600, "2g")
        # rejected at the corrupted record (or earlier: then the recorded behaviour itself is
        # rejected and the shards below report it)
        return kind, (not ok) and l is not None and l <= hit + 1 and inv in MON

    with ThreadPoolExecutor(max_workers=par) as ex:
        futs = [ex.submit(work, i) for i in range(len(shards))]
        scs = [ex.submit(selfcheck, k) for k in ("lucky", "ntimed-pair", "ntimed-raw")]
        results = [f.result() for f in futs]
        sc = dict(f.result() for f in scs)
    ctx.log("corrupted-field self-check: %s" % sc)

    nval_events = 0
    bad_shards = 0
    for ix, kind, l, inv in results:
        part = shards[ix]
        if kind is None:
            nval_events += len(part)
            continue
        bad = part[l - 1] if l else None
        hist = _history(part, l) if l else []
        if kind == "drift":
            nval_events += len(part)
            ctx.drift.append("%s: recorded event differs from Filters.tla: %s" % (inv, bad))
            continue
        bad_shards += 1
        if inv in ("RRule", "RUnconf"):
            sig = "C17 %s LuckyPacketFilter.Do %s" % (inv, "unconfigured" if bad and bad["cap"] == 0 else "configured")
            what = "real LuckyPacketFilter output violates %s (cap=%s pick=%s): %s" % (
                inv, bad and bad["cap"], bad and bad["k"], bad)
        elif inv == "RRawWhen":
            cnt = 0
            for e in reversed(hist):
                if e["ev"] == "ns":
                    cnt += 1
                elif e["ev"] in ("nr", "ne", "nnew"):
                    break
            cls = "first-three" if cnt <= 3 else "within-bounds"
            sig = "C17 RRawWhen NtimedFilter.Do %s" % cls
            what = "real NtimedFilter output is not the raw offset (%s sample since reset, err=%s ns > tol=%s ns): %s" % (
                cnt, bad and bad["err"], bad and bad["tol"], bad)
        else:
            # the separator that precedes, in the group's first run, the samples this output must depend on only
            sep = "creation"
            grp = hist
            firsts = [i for i, e in enumerate(grp) if e["ev"] == "nnew"]
            main = grp[firsts[0]:firsts[1]] if len(firsts) > 1 else grp
            seg = []
            for e in reversed(hist):
                if e["ev"] == "ns":
                    seg.append(e["id"])
                else:
                    break
            first_id = seg[-1] if seg else None
            for i, e in enumerate(main):
                if e["ev"] == "ns" and e["id"] == first_id and i > 0:
                    sep = {"nr": "Reset", "ne": "epoch-change"}.get(main[i - 1]["ev"], "creation")
                    break
            sig = "C17 RHistIndep NtimedFilter after-%s" % sep
            what = "real NtimedFilter output depends on samples seen before the last reset / clock step: %s" % bad
        ctx.violation(sig, what, dict(invariant=inv, event=bad, history=hist))

    for kind, okk in sc.items():
        if okk is None:
            ctx.notes.append("corrupted-field self-check (%s): no suitable record found" % kind)
        elif not okk and not ctx.violations and not ctx.known:
            raise vlib.Inconclusive("the monitor did not reject a corrupted %s record (binding is vacuous)" % kind)

    # 5. evidence
    st, nontrivial = _judged_stats(recs)
    runs = st["lucky_runs"] + st["ntimed_runs"]
    if st["rule_judged_multi"] < 1000 or st["raw_cnt"] < 1000 or st["raw_inb"] < 100 or st["hist_pairs"] < 1000:
        raise vlib.Inconclusive("monitor coverage too small: %s" % st)
    ex_samples = [r for r in recs if r.get("src") == "example"][:6]
    i1 = next(i for i, r in enumerate(recs) if r["ev"] == "ngroup")
    ctx.cov.update(
        evaluations=len(recs), distinct_nontrivial=len(nontrivial),
        rule="events recorded from the real filters: TLC-enumerated behaviours (lucky: every history of MaxEv events "
             "with pairwise distinct delays for cap,pick in 1..3 and the zero value, under offset/delay embeddings; "
             "ntimed: every sequence of sample classes (failLo,failHi) / Reset / epoch change of MaxEv events, "
             "each with its fresh-filter twins), seeded random histories, the repository's 7 example inputs; "
             "distinct_nontrivial = histories with at least one output judged by a non-degenerate monitor clause "
             "(median rule on a window of >= 2 distinct delays, unconfigured raw, in-bounds raw beyond the 3rd "
             "sample, or a metamorphic pair)",
        traces_validated_against_impl=runs if bad_shards == 0 else 0,
        exhaustive=True, judged=st, driver=dstats, shards=len(shards),
        samples=ex_samples + recs[1000:1004] + recs[i1:i1 + 6])
    ctx.assumptions += [
        "lucky packet: comparison with the selection rule only for windows with pairwise distinct round-trip delays "
        "(as the property states); ties are covered by strict mode only",
        "an even-sized pick set's median is accepted rounded to an integer in either direction",
        "ntimed: 'within the learned bounds' is judged only where it follows from the inputs alone (sample interval "
        "nested by >= 1 us in all earlier ones since the reset, or all identical); float rounding tolerance 1 ns + 1e-9 relative",
        "ntimed history independence: bitwise equal outputs for equal sample sequences since the last Reset / epoch "
        "change / creation, within groups of runs over the same concrete timestamps",
        "offset embeddings a*v+b commute with the filter (inexact inverse images are skipped and counted: %s)"
        % dstats.get("lucky_inexact", "?"),
        "small scope: cap, pick <= 3 and <= 5 events in TLC; cap <= 8, pick <= 10, <= 30 events in seeded random histories",
    ]
