SPECIFICATION Spec
CONSTANTS
  ShortCookieRead = FALSE
  Alphabet <- AlphaGen
  MaxRecs = 2
  MaxChunks = 3
INVARIANTS Emit
