SPECIFICATION TSpec
INVARIANTS EvalIsSpec
