SPECIFICATION Spec
CONSTANTS
  PlaceholderTypedAsCookie = TRUE
  SweepPrefixes2 <- Pre2Exh
  SweepBases <- SweepBasesExh
  SweepWide = FALSE
  NtsUidLens <- UidExh
  NtsCkLens <- CkLensExh
  NtsMaxCk = 2
  NtsPhLens <- PhLensExh
  NtsMaxPh = 3
  NtsPtShapes <- PtExh
  SckLens <- SckLensExh
  SckNs <- SckNsExh
INVARIANTS PLay PLayb PLayp PLvm PNts PSck
