SPECIFICATION StrSpec
INVARIANTS SExplained STime SExpected SCurrentPresent SDraw
