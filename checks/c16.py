"""C16 - a measurement round ends by its deadline, counts each result once, leaks nothing.

1. TLC decides the property section of spec/Collect.tla (safety + NoLeak under
   fairness) for every scenario with <= 3 (quick) / <= 4 (thorough) clocks.
2. TLC (Emit; Collect_gen.cfg in the thorough tier) prints every reachable final
   outcome of every scenario; grouped by scenario this is the scenario list replayed on
   the real code and, per scenario, the SET of outcomes the code may show.
3. harness/c16 runs the real MeasureClockOffsets in synctest bubbles.
4. CollectTrace.tla: monitor = Collect's property section on the recorded final
   states (VIOLATION); strict = membership in the TLC-computed set (DRIFT).
"""
import collections, json, os, re
import vlib

KIND = {(1, "ok"): 0, (1, "err"): 1, (2, "ok"): 2, (2, "err"): 3, (3, "ok"): 4, (3, "err"): 5, (4, "err"): 6}
MON = ["RByDeadline", "RExactlyOncePrefix", "RInTimeCounted", "RNoLeak", "RSecondCallRefused", "RCounterRestored"]
ACTIONS = ["MCas", "MSpawn", "MCtx", "MExit", "MGoDrain", "MRestore", "DExit", "Timer", "Cancel", "Call2", "Fin2",
           "Tick", "MainNext", "DrainNext", "Urgent"]
# single-site deviations of the spec and the clause TLC must refute for each
FAULTS = {"nodrain": "NoStuckLeak", "drain_nj": "NoStuckLeak", "noguard": "SecondCallRefused",
          "norestore": "CounterRestored", "noctx": "ByDeadline", "ij": None}


def scen_index(n, d, o):
    """Position of a scenario in allowed.ndjson (1-based, dense)."""
    off = sum(7 ** m for m in range(n))
    return off + sum(KIND[(d[k], o[k])] * 7 ** k for k in range(n)) + 1


def okey(rt, prefix, phase, refused):
    return (rt, tuple(sorted(prefix)), phase, bool(refused))


def lead(ms):
    j = 0
    while j < len(ms) and ms[j] != 0:
        j += 1
    return j


def scen_class(r):
    ks = sorted({{1: "before", 2: "at", 3: "after", 4: "never"}[x] for x in r["d"]})
    return "n=%d %s" % (r["n"], "+".join(ks) if ks else "none")


def run(ctx):
    q = ctx.quick
    # ---- 1. design level
    # quick: one run decides the clauses for <= 3 clocks AND prints the final outcomes (Emit is part of
    # Collect_exh.cfg); thorough: <= 4 clocks, the generator is a separate single-worker run
    r = ctx.tlc("CollectMC", "Collect_exh.cfg" if q else "Collect_deep.cfg", timeout=900, coverage=q,
                workers=1 if q else 8)
    maxn = 3 if q else 4
    ctx.log("TLC n<=%d: %d distinct states, safety clauses + NoLeak hold" % (maxn, r["distinct"]))
    if q:
        cov = dict(re.findall(r"^<(\w+) line [^>]*of module Collect[^>]*>: (\d+):\d+", r["out"], re.M))
        dead = [a for a in ACTIONS if int(cov.get(a, 0)) == 0]
        if dead:
            raise vlib.Inconclusive("Collect.tla: actions never taken in %s: %s" % (r["cfg"], dead))
        g = r
    else:
        for f, clause in FAULTS.items():
            fr = ctx.tlc("CollectMC", "Collect_f_%s.cfg" % f, timeout=300, allow_violation=True, tag="fault:" + f)
            if not fr["violated"] or (clause and fr["violated"] != clause):
                raise vlib.Inconclusive("spec self-test: deviation %s should violate %s, TLC says %s"
                                        % (f, clause, fr["violated"]))
        ctx.log("spec self-test: %d single-site deviations of Collect.tla each refuted by TLC" % len(FAULTS))
        # ---- 2. scenarios and their allowed outcome sets, from TLC
        g = ctx.tlc("CollectMC", "Collect_gen.cfg", workers=1, timeout=900, tag="gen")
    outs = ctx.emitted(g["out"])
    by = collections.defaultdict(dict)
    scen = {}
    for o in outs:
        ix = scen_index(o["n"], o["d"], o["o"])
        scen[ix] = dict(id=ix, n=o["n"], d=o["d"], o=o["o"])
        by[ix][okey(o["rt"], o["prefix"], o["phase"], o["refused"])] = dict(
            rt=o["rt"], j=o["j"], prefix=sorted(o["prefix"]), phase=o["phase"], refused=o["refused"])
    if sorted(scen) != list(range(1, len(scen) + 1)) or len(scen) != sum(7 ** m for m in range(maxn + 1)):
        raise vlib.Inconclusive("generator did not cover all scenarios: %d" % len(scen))
    cases = [scen[ix] for ix in sorted(scen)]
    cp = ctx.path("cases.ndjson")
    vlib.write_ndjson(cp, cases)
    ap = ctx.path("allowed.ndjson")
    vlib.write_ndjson(ap, [dict(scen[ix], outs=list(by[ix].values())) for ix in sorted(scen)])
    nallowed = sum(len(v) for v in by.values())
    ctx.log("TLC generator: %d scenarios, %d allowed (scenario, outcome) pairs from %d final states"
            % (len(cases), nallowed, len(outs)))

    # ---- 3. the real code
    trace = ctx.path("trace.ndjson")
    rc, out = ctx.gotest("c16", "TestC16", env=dict(VERIF_IN=cp, VERIF_OUT=trace), timeout=1500)
    recs = vlib.read_ndjson(trace) if os.path.exists(trace) else []
    if rc != 0 and "exit status 3" in out and recs and recs[-1].get("hung"):
        # the driver gave up on a round that never came back; that round is the observation
        ctx.log("driver stopped at a round that did not return: %s" % recs[-1]["note"])
    elif rc != 0 or not recs:
        raise vlib.Inconclusive("go driver c16/TestC16 failed (rc=%d):\n%s" % (rc, "\n".join(out.splitlines()[-60:])))
    runs = sum(x["count"] for x in recs)
    ctx.log("driver: %d runs, %d distinct (scenario, phase, observation) records" % (runs, len(recs)))

    # negative control of the binding: VERIF_C16_CORRUPT=<field> falsifies one
    # recorded field of one record; the monitor has to reject the trace
    cor = os.environ.get("VERIF_C16_CORRUPT")
    if cor:
        victim = next(x for x in recs if x["n"] == 3 and lead(x["ms"]) == 2 and x["phase"] == "during")
        if cor == "ms":
            victim["ms"] = [victim["ms"][0], victim["ms"][0], 0]      # a result counted twice
        elif cor == "ms_tail":
            victim["ms"] = [victim["ms"][0], 0, victim["ms"][1]]      # a write beyond the prefix
        elif cor == "rt":
            victim["rt"], victim["late"] = 3, True
        elif cor == "leaked":
            victim["leaked"] = 1
        elif cor == "refused":
            victim["refused"] = False
        else:
            raise vlib.Inconclusive("unknown VERIF_C16_CORRUPT field " + cor)
        ctx.notes.append("trace corrupted on purpose: " + cor)
        vlib.write_ndjson(trace, recs)

    # ---- 4. trace validation
    extra = {"allowed.ndjson": ap}
    ok, l, inv, tout = ctx.validate("CollectTrace", "CollectTrace_mon.cfg", trace, extra_files=extra)
    nval = len(recs)
    if not ok:
        nval = 0
        # one run per clause so that every violated clause is reported
        for m in MON:
            cfgp = ctx.path("CollectTrace_%s.cfg" % m)
            with open(cfgp, "w") as f:
                f.write("SPECIFICATION TSpec\nINVARIANTS %s\n" % m)
            ok1, l1, inv1, _ = ctx.validate("CollectTrace", os.path.basename(cfgp), trace,
                                            extra_files=dict(extra, **{os.path.basename(cfgp): cfgp}))
            if ok1:
                continue
            if not l1 or l1 > len(recs):
                raise vlib.Inconclusive("monitor %s failed but the record could not be identified:\n%s"
                                        % (m, tout[-1500:]))
            bad = recs[l1 - 1]
            ctx.violation("C16 %s MeasureClockOffsets" % m[1:],
                          "real MeasureClockOffsets violates %s in scenario %s (d=%s o=%s phase=%s): rt=%s late=%s ms=%s "
                          "stable=%s leaked=%s exitdead=%s refused=%s mainpan=%s %s"
                          % (m[1:], scen_class(bad), bad["d"], bad["o"], bad["phase"], bad["rt"], bad["late"], bad["ms"],
                             bad["stable"], bad["leaked"], bad["exitdead"], bad["refused"], bad["mainpan"], bad["note"][:300]),
                          bad)
        if not ctx.violations and not ctx.known:
            raise vlib.Inconclusive("monitor failed (%s) but no single clause did" % inv)
    sok, sl, sinv, sout = ctx.validate("CollectTrace", "CollectTrace_strict.cfg", trace, extra_files=extra)
    if not sok:
        bad = recs[sl - 1] if sl and sl <= len(recs) else None
        ctx.drift.append("observation not among the outcomes of Collect!Next (%s): %s" % (sinv, bad))

    # ---- coverage of the allowed sets by what the scheduler actually did
    seen = collections.defaultdict(set)
    for x in recs:
        if x["returned"]:
            j = lead(x["ms"])
            seen[x["id"]].add(okey(x["rt"], x["ms"][:j], x["phase"], x["refused"]))
    reach = {ix: {k for k in v if not (scen[ix]["n"] == 0 and k[2] == "during")} for ix, v in by.items()}
    full = sum(1 for ix in reach if seen[ix] >= reach[ix])
    outside = sum(len(seen[ix] - set(by[ix])) for ix in by)
    nseen = sum(len(seen[ix] & reach[ix]) for ix in reach)
    nreach = sum(len(v) for v in reach.values())
    multi = sum(1 for ix in by if len({(k[0], k[1]) for k in seen[ix]}) > 1)
    ctx.log("observed %d of %d allowed (scenario, outcome) pairs; %d scenarios fully covered; %d scenarios showed "
            "more than one (rt, prefix) outcome; %d observations outside the allowed sets"
            % (nseen, nreach, full, multi, outside))
    nontrivial = len({(x["id"], x["phase"], x["rt"], tuple(x["ms"])) for x in recs if x["n"] >= 1})
    pick = [x for x in recs if x["n"] == maxn and 4 in x["d"] and 2 in x["d"] and x["phase"] == "during"][:2]
    ctx.cov.update(
        evaluations=runs, distinct_nontrivial=nontrivial,
        rule="every scenario with 0..%d clocks (per clock: result ready before/at/after the deadline with value or error, "
             "or blocked until cancellation) enumerated by TLC from Collect.tla, each run %s times on the real "
             "MeasureClockOffsets under synctest with seeded scheduler perturbation and a second call during/after/never; "
             "distinct_nontrivial = distinct (scenario, phase, return time, result slice) with at least one clock"
             % (maxn, "60" if q else "500"),
        traces_validated_against_impl=nval, exhaustive=True,
        scenarios=len(cases), allowed_pairs=nreach, allowed_pairs_observed=nseen,
        scenarios_fully_covered=full, scenarios_with_scheduler_dependent_outcome=multi,
        observations_outside_allowed=outside,
        samples=recs[:1] + pick + recs[len(recs) // 2:len(recs) // 2 + 2] + recs[-1:])
    ctx.assumptions += [
        "virtual time of testing/synctest = the maximal-progress time of Collect.tla (time advances only when every "
        "goroutine of the bubble is durably blocked)",
        "small scope: <= 3 (quick) / <= 4 (thorough) reference clocks; completion times abstracted to before/at/after the deadline/never",
        "scripted clocks return by 3 units or at ctx.Done; the caller cancels after return as sync.measureOffsetToRefClks does",
        "goroutines left behind are detected by stack inspection (frames of core/client in the bubble) and, independently, "
        "by synctest's bubble-exit check",
        "a select is modelled as a free choice among ready cases; the real scheduler's choice is checked for membership "
        "(strict, DRIFT), the property clauses decide the verdict"]
