SPECIFICATION TSpec
INVARIANTS ReplyIffValid ExactlyOne ToSender ReplyHeader NeverAnswersReply BoundedTraffic MCounted MSentinel MRawReverse SReplies SPredicted SEcho SOther SPair SStage
