SPECIFICATION Spec
CONSTANTS
  ShortCookieRead = FALSE
  Alphabet <- AlphaExh
  MaxRecs = 2
  MaxChunks = 3
INVARIANTS TypeOK SegmentationIndependent KeRoundTrip
