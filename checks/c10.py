"""C10 - NTS authentication is sound: only untampered packets under the right key pass.

spec/NtsPacket.tla   cell-level model of the NTS extension fields, the authenticator (perfect AEAD), the
                     cookies and the receiving paths of server and client; property section Sound / Complete /
                     CookieBinding
1. TLC decides the property section on every packet shape x every cell x every replacement value (small
   scope), and shows that it FAILS with the fault switches (vacuity check).
2. TLC enumerates the behaviours (shape, mutation, predicted outcome); they are folded into classes
   (role, shape, kind, region, field, part) with the set of predicted outcomes.
3. harness/c10 builds real packets with the project's encoder for every class, mutates the bytes of the
   class's region and runs the real receiving path.
4. NtsPacketTrace.tla: monitor = property section on the recorded behaviour (VIOLATION), strict = outcome
   is what the specification predicts (DRIFT).
"""
import collections, os, threading
import vlib

JUDGED = {"ntpHeader", "uidField", "cookieField", "placeholderField", "nonceLenField", "ctLenField", "nonce", "ciphertext"}
CLS = ("role", "nf", "kind", "region", "fi", "sub")


def classes(raw):
    agg = collections.OrderedDict()
    for x in raw:
        k = tuple(x[f] for f in CLS)
        agg.setdefault(k, set()).add(x["out"])
    return [dict(zip(CLS, k), pred=sorted(v)) for k, v in agg.items()]


def sig_of(inv, r):
    return "C10 %s %s %s %s" % (inv, r["role"], r["kind"], r["region"] if r["region"] != "-" else "whole")


def run(ctx):
    q = ctx.quick
    # 1. design level (runs next to the generator / driver pipeline)
    ctx.specdir()
    faults = [("NtsPacket_f_nouid.cfg", "Sound", "uid comparison removed"),
              ("NtsPacket_f_parsepast.cfg", "Sound", "fields after the authenticator parsed"),
              ("NtsPacket_f_ctclamp.cfg", "Sound", "ciphertext length clamped to the datagram"),
              ("NtsPacket_f_adhdr.cfg", "Sound", "associated data = NTP header only"),
              ("NtsPacket_f_parsepast2.cfg", "AuthenticOnly", "fields after the authenticator parsed")]
    design = {}

    def design_level():
        try:
            r = ctx.tlc("NtsPacketMC", "NtsPacket_exh.cfg" if q else "NtsPacket_deep.cfg", timeout=900, workers=4)
            design["states"] = r["distinct"]
            for cfg, inv, what in (faults[:2] if q else faults):
                f = ctx.tlc("NtsPacketMC", cfg, timeout=300, workers=2, allow_violation=True, tag="fault:" + cfg)
                if f["violated"] != inv:
                    raise vlib.Inconclusive("vacuity check: %s is not violated by the faulty specification (%s)" % (inv, what))
            if not q:
                ctx.tlc("NtsPacketMC", "NtsPacket_phcookie.cfg", timeout=600, workers=4)
                ctx.tlc("NtsPacketMC", "NtsPacket_unhardened.cfg", timeout=600, workers=4)
        except Exception as e:          # re-raised in the main thread
            design["err"] = e

    th = threading.Thread(target=design_level)
    th.start()
    try:
        _pipeline(ctx, q)
    finally:
        th.join()
    if "err" in design:
        raise design["err"]
    ctx.log("TLC exhaustive: %d distinct states" % design["states"])


def _pipeline(ctx, q):
    # 2. spec -> code: the cases
    g = ctx.tlc("NtsPacketMC", "NtsPacket_gen.cfg", workers=1, timeout=600, tag="gen")
    raw = ctx.emitted(g["out"])
    cases = classes(raw)
    for k in ("replay+appenduid", "replay+appendcookie", "appenduid", "appendcookie"):
        if not any(c["kind"] == k for c in cases):
            raise vlib.Inconclusive("case generator produced no %s case" % k)
    if len(raw) < 1500 or len(cases) < 200:
        raise vlib.Inconclusive("case generator produced only %d behaviours / %d classes" % (len(raw), len(cases)))
    for c in cases:
        if c["region"] in JUDGED and "accepted" in c["pred"]:
            raise vlib.Inconclusive("specification predicts acceptance of a mutation in a judged region: %s" % c)
    cp = ctx.path("cases.ndjson")
    vlib.write_ndjson(cp, cases)
    ctx.log("generator: %d behaviours -> %d classes" % (len(raw), len(cases)))
    # 3. the real code
    trace, out = ctx.godriver("c10", "TestC10", cases=cp, timeout=1500)
    recs = vlib.read_ndjson(trace)
    skipped = [x for x in recs if x["role"] == "skip"]
    zt = [x for x in recs if x["role"] == "note"]
    recs = [x for x in recs if x["role"] not in ("skip", "note")]
    if zt:
        ctx.notes.append("%d tail cuts removed only zero bytes (the receiver's zero fill rebuilds the same ciphertext; such a "
                         "truncated datagram is accepted by the code): not the model's mutation, skipped, not judged" % len(zt))
    if skipped:
        shapes = sorted({(x["why"], x["nf"]) for x in skipped})
        if any(nf < 8 for _, nf in shapes):
            raise vlib.Inconclusive("the tree's encoder cannot produce shapes %s" % shapes)
        ctx.notes.append("shapes the tree's encoder cannot produce (C11's subject), %d classes not exercised: %s" % (len(skipped), shapes))
    stats = "hang pre-filtered (not executed): %d, hang by watchdog: %d, packets per class: %d" % (
        sum(1 for x in recs if x["pre"]), sum(1 for x in recs if x["out"] == "hang" and not x["pre"]),
        len({x["pk"] for x in recs}))
    ctx.log("driver: %d records; %s" % (len(recs), stats))
    if os.environ.get("VERIF_C10_CORRUPT"):
        # negative control on the binding itself: corrupt one recorded field and expect the monitor to object
        which = os.environ["VERIF_C10_CORRUPT"]
        for x in recs:
            if which == "out" and x["kind"] == "flip" and x["region"] == "ciphertext" and x["out"] == "rejected":
                x["out"] = "accepted"
                break
            if which == "uid" and x["role"] == "resp" and x["kind"] == "none" and x["out"] == "accepted":
                x["uid"] = False
                break
            if which == "sc" and x["role"] == "req" and x["kind"] == "none":
                x["ck_sc"] = 2
                break
        ctx.notes.append("SELFTEST: one recorded field (%s) was corrupted on purpose" % which)
    # the concretiser must have changed exactly the region the class names (guards the driver, not the code)
    for x in recs:
        if x["kind"] == "flip" and x["touched"] != [x["region"]]:
            raise vlib.Inconclusive("concretiser touched %s for class %s" % (x["touched"], {k: x[k] for k in CLS}))
    done = {tuple(x[f] for f in CLS) for x in recs} | {(x["why"],) + tuple(x[f] for f in CLS[1:]) for x in skipped}
    missing = [c for c in cases if tuple(c[f] for f in CLS) not in done]
    if missing:
        raise vlib.Inconclusive("%d classes were not exercised, e.g. %s" % (len(missing), missing[0]))
    # 4. code -> spec
    nval, ndrift = 0, 0
    chunk = 50000
    for i in range(0, len(recs), chunk):
        part = recs[i:i + chunk]
        pp = ctx.path("chunk.ndjson")
        clean = False
        for attempt in range(16):
            if not part or len(ctx.violations) >= 6:
                break
            vlib.write_ndjson(pp, part)
            ok, l, inv, tout = ctx.validate("NtsPacketTrace", "NtsPacketTrace_mon.cfg", pp, timeout=900)
            if ok:
                clean = True
                break
            if not l:
                raise vlib.Inconclusive("monitor failed without a position:\n" + tout[-1500:])
            bad = part[l - 1]
            ctx.violation(sig_of(inv, bad),
                          "real %s path: %s violated: mutation %s/%s%s at byte %d bit %d (value %d) of a %d-field packet -> %s"
                          % ({"req": "server", "resp": "client", "cookie": "cookie", "listener": "listener (StartIPServer)"}.get(bad["role"], bad["role"]), inv,
                             bad["kind"], bad["region"], "/" + bad["sub"] if bad["sub"] != "-" else "",
                             bad["off"], bad["bit"], bad["val"], bad["nf"], bad["out"]), bad)
            # one finding per class: drop the records that would repeat this signature and look for others
            same = lambda x: (x["role"], x["kind"], x["region"], x["out"]) == (bad["role"], bad["kind"], bad["region"], bad["out"])
            part = [x for x in part if not same(x)]
        else:
            ctx.notes.append("more than 16 distinct violating classes in one chunk; remaining records not validated")
        if len(ctx.violations) >= 6:
            ctx.notes.append("6 distinct violating classes reported; the remaining records were not validated")
            break
        if not clean:
            continue
        nval += len(part)
        ok, l, inv, tout = ctx.validate("NtsPacketTrace", "NtsPacketTrace_strict.cfg", pp, timeout=900)
        if not ok:
            ndrift += 1
            b = part[l - 1] if l else None
            ctx.drift.append("%s: outcome %s not what NtsPacket.tla predicts (%s) for %s" %
                             (inv, b and b["out"], b and b["pred"], b and {k: b[k] for k in CLS + ("off", "bit", "val", "why")}))
    cnt = collections.Counter(x["out"] for x in recs)
    unj = collections.Counter((x["region"], x["out"]) for x in recs if x["kind"] in ("flip", "append") and x["region"] not in JUDGED
                              and x["role"] != "cookie")
    ctx.notes.append("outcomes: %s; %s" % (dict(cnt), stats))
    ctx.notes.append("panic/hang outcomes (none on the hardened decoders) are C08's subject; here they count as 'not accepted'. "
                     "Nothing is pre-filtered unless the start-up probe shows that this build's DecodePacket loops on Length 0.")
    ctx.notes.append("unjudged regions (predicted, not judged): %s" % {"%s:%s" % k: v for k, v in sorted(unj.items())})
    ctx.notes.append("noncePad / ctPad are empty in every packet the encoder can produce (nonce 16 B, ciphertext 16+4k B)")
    distinct = len({(x["role"], x["nf"], x["kind"], x["region"], x["fi"], x["sub"], x["off"], x["bit"], x["val"], x["pk"])
                    for x in recs if x["kind"] not in ("none", "export")})
    pick = [x for x in recs if x["kind"] == "flip" and x["region"] == "placeholderField"][:1] + \
           [x for x in recs if x["kind"] == "flip" and x["region"] == "ciphertext"][:1] + \
           [x for x in recs if x["kind"] in ("swapdir", "replay")][:2] + [x for x in recs if x["kind"] == "none"][:1]
    ctx.cov.update(
        evaluations=len(recs), distinct_nontrivial=distinct,
        rule="classes (role, number of fields, mutation kind, region, field, part) enumerated by TLC from NtsPacket.tla "
             "(requests with 1..7 cookie/placeholder fields = pool levels 8..1, responses with 1..8 cookies, one cookie); "
             "per class on real packets: %s of the region, every bit and a list of replacement values of every type/"
             "length field, tail cuts, appended bytes, whole uid / cookie / placeholder fields appended after the "
             "authenticator (also to a replayed response to another request), key / direction / uid / cookie / "
             "server-key substitutions; "
             "distinct = distinct (class, packet instance, byte, bit or value), unmutated packets not counted"
             % ("one seeded bit per byte" if q else "every bit of every byte"),
        traces_validated_against_impl=nval, classes=len(cases), exhaustive=False, samples=pick or recs[:3])
    ctx.assumptions += ["AES-SIV-CMAC (miscreant) is a secure AEAD; the sweep exercises it but proves nothing about it",
                        "the server's order of calls is reproduced by the driver from core/server/server_ip.go "
                        "(DecodePacket, FirstCookie, Decode, provider.Get, Decrypt, ProcessRequest) and "
                        "core/client/client_ip.go (DecodePacket, ProcessResponse); the listeners themselves are not run",
                        "small scope of the exhaustive TLC run: <= 3 (quick) / 5 (thorough) fields, one mutation per packet"]
