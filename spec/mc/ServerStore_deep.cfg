SPECIFICATION Spec
CONSTANTS
  Clients = {"a", "b", "c"}
  Listeners = {"l1", "l2"}
  TMax = 3
  ItemCap = 2
  Cap = 2
  MaxOps = 5
  StrictTx = TRUE
VIEW view
INVARIANTS Bounded HeapValid QvalDominates QvalExact
PROPERTIES EvictionProp ReplyRxProp ReplyShapeProp LostTxDroppedProp NoCrossClientProp KernelTxWinsProp RecordedTxLaterProp UpdateLocalProp HandleLocalProp
