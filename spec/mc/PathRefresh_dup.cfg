SPECIFICATION SpecExh
CONSTANTS
  P = 3
  DstLists <- DLDup
  Dsts <- Dsts12
  IAs <- IA1
  MaxN = 1
  Delays <- D04
  Horizon = 9
  MaxUpd = 3
  KeepOnFail = FALSE
  Dedup = FALSE
  GenLen = 0
INVARIANTS TypeOK TickNotOverdue OnGridOrAfterOverrun PathsFromLastRefresh LocalIACurrent NotTooRare CountBound
