SPECIFICATION Spec
CONSTANTS
  MaxClients = 0
  MaxPaths = 0
  ThetaVecs <- Theta1
  AllCompletions = FALSE
  FW = 8
  MaxRounds = 1
  MaxRefresh = 1
  PrivateSlice = TRUE
  KeepHist = FALSE
  CheckRand = TRUE
  RandWMax = 9
  CheckUnif = TRUE
  UnifNMax = 6
INVARIANTS TypeOK
