SPECIFICATION Spec
CONSTANTS
  Which = "lucky"
  Caps = {1, 2, 3}
  Picks = {1, 2, 3}
  UnconfToo = TRUE
  Offs <- OffsGen
  Rtds = {1, 2, 3, 4}
  DistinctOnly = FALSE
  Clk0s = {0, 1}
  MaxEv = 5
  FilterAverage = 20
  Classes <- ClassesAll
  StepAt = {}
  MaxInDo = 0
  EmitMinInDo = 0
VIEW View
INVARIANTS DoEqualsRule UnconfiguredRaw ResetEmpties WindowIsLastN TypeOK
