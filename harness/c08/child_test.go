// C08 children: the REAL receive loops of scion-time run in child processes
// (re-exec of this test binary with C08_CHILD set), because a Go panic in a
// listener goroutine or an endless loop cannot be observed from inside the
// same process.
//
//	C08_CHILD=server  timebase.RegisterClock, ntske.NewProvider,
//	                  server.StartNTSKEServerIP, StartIPServer, StartCSPTPServerIP
//	                  on C08_IP (NTP port C08_PORT, NTS-KE 4460, CSPTP 319/320); blocks.
//	C08_CHILD=client  reads one JSON command per line on stdin, runs
//	                  client.MeasureClockOffsetIP / CSPTPClientIP.MeasureClockOffset
//	                  once per command and prints one JSON result line.  Commands with il = true use
//	                  the client value kept under cid, with InterleavedMode on (client histories).
package c08

import (
	"bufio"
	"context"
	"crypto/ecdsa"
	"crypto/elliptic"
	"crypto/rand"
	"crypto/tls"
	"crypto/x509"
	"crypto/x509/pkix"
	"encoding/json"
	"fmt"
	"log/slog"
	"math/big"
	"net"
	"net/netip"
	"os"
	"strconv"
	"syscall"
	"testing"
	"time"

	"github.com/scionproto/scion/pkg/addr"
	"github.com/scionproto/scion/pkg/snet"
	spath "github.com/scionproto/scion/pkg/snet/path"

	"example.com/scion-time/core/client"
	"example.com/scion-time/core/server"
	"example.com/scion-time/core/timebase"
	"example.com/scion-time/net/ntske"
	scionnet "example.com/scion-time/net/scion"
	scionudp "example.com/scion-time/net/udp"
)

func TestMain(m *testing.M) {
	switch os.Getenv("C08_CHILD") {
	case "server":
		childServer()
	case "client":
		childClient()
	default:
		os.Exit(m.Run())
	}
}

type sysClock struct{}

func (sysClock) Epoch() uint64                                      { return 0 }
func (sysClock) Now() time.Time                                     { return time.Now().UTC() }
func (sysClock) Drift(time.Duration) time.Duration                  { return 0 }
func (sysClock) Step(time.Duration)                                 {}
func (sysClock) Adjust(time.Duration, time.Duration, float64)       {}
func (sysClock) Sleep(d time.Duration)                              { time.Sleep(d) }

// childLimits bounds what a misbehaving child can take from the machine: the
// non-advancing extension-field loop allocates 64 KiB per iteration.
func childLimits() {
	_ = syscall.Setrlimit(syscall.RLIMIT_CORE, &syscall.Rlimit{Cur: 0, Max: 0})
	// memory watchdog (an address-space rlimit small enough to be useful breaks the start-up of the
	// Go 1.26 runtime): resident set above the limit => report like the runtime would and exit
	limit := int64(768) << 20
	if v, err := strconv.ParseInt(os.Getenv("C08_RSS_LIMIT"), 10, 64); err == nil && v > 0 {
		limit = v
	}
	page := int64(os.Getpagesize())
	var base int64 = -1
	go func() {
		for {
			time.Sleep(5 * time.Millisecond)
			b, err := os.ReadFile("/proc/self/statm")
			if err != nil {
				continue
			}
			var size, rss int64
			fmt.Sscanf(string(b), "%d %d", &size, &rss)
			if base < 0 {
				base = size
			}
			// freshly allocated zeroed memory is mapped long before it is resident: watch both
			if rss*page > limit || (size-base)*page > 64*limit {
				fmt.Fprintf(os.Stderr, "fatal error: c08 watchdog: out of memory (resident %d MiB, mapped +%d MiB, limit %d MiB)\n",
					rss*page>>20, (size-base)*page>>20, limit>>20)
				os.Exit(2)
			}
		}
	}()
}

func childLogger() *slog.Logger {
	lvl := slog.LevelError
	switch os.Getenv("C08_LOG") {
	case "debug":
		lvl = slog.LevelDebug
	case "info":
		lvl = slog.LevelInfo
	}
	return slog.New(slog.NewTextHandler(os.Stderr, &slog.HandlerOptions{Level: lvl}))
}

func selfSigned() tls.Certificate {
	key, err := ecdsa.GenerateKey(elliptic.P256(), rand.Reader)
	if err != nil {
		panic(err)
	}
	tmpl := &x509.Certificate{
		SerialNumber: big.NewInt(1),
		Subject:      pkix.Name{CommonName: "c08"},
		NotBefore:    time.Now().Add(-time.Hour),
		NotAfter:     time.Now().Add(24 * time.Hour),
		KeyUsage:     x509.KeyUsageDigitalSignature,
		ExtKeyUsage:  []x509.ExtKeyUsage{x509.ExtKeyUsageServerAuth},
		IPAddresses:  []net.IP{net.IPv4(127, 0, 0, 1)},
	}
	der, err := x509.CreateCertificate(rand.Reader, tmpl, tmpl, &key.PublicKey, key)
	if err != nil {
		panic(err)
	}
	return tls.Certificate{Certificate: [][]byte{der}, PrivateKey: key}
}

func childServer() {
	childLimits()
	ip := net.ParseIP(os.Getenv("C08_IP"))
	port, _ := strconv.Atoi(os.Getenv("C08_PORT"))
	if ip == nil || port == 0 {
		fmt.Fprintln(os.Stderr, "c08 child: bad C08_IP/C08_PORT")
		os.Exit(3)
	}
	log := childLogger()
	ctx := context.Background()
	timebase.RegisterClock(sysClock{})
	provider := ntske.NewProvider()
	cfg := &tls.Config{
		ServerName:   "c08",
		NextProtos:   []string{"ntske/1"},
		Certificates: []tls.Certificate{selfSigned()},
		MinVersion:   tls.VersionTLS13,
	}
	server.StartNTSKEServerIP(ctx, log, ip, port, cfg, provider)
	server.StartIPServer(ctx, log, &net.UDPAddr{IP: ip, Port: port}, 0, provider)
	if os.Getenv("C08_CSPTP") == "1" {
		server.StartCSPTPServerIP(ctx, log, &net.UDPAddr{IP: ip}, 0)
	}
	if os.Getenv("C08_SCION") == "1" {
		// no SCION daemon: same-AS operation, DRKeys mocked (USE_MOCK_KEYS=true in the environment)
		server.StartSCIONServer(ctx, log, "", &net.UDPAddr{IP: ip, Port: scSrvPort}, 0, provider)
	}
	fmt.Println("READY")
	os.Stdout.Sync()
	select {}
}

type clientCmd struct {
	Op         string `json:"op"` // "ip" | "csptp" | "scion"
	SPAO       bool   `json:"spao"`
	NextHop    string `json:"next_hop"` // scion: underlay address of the first hop (the harness)
	Auth       bool   `json:"auth"`
	Local      string `json:"local"`
	Remote     string `json:"remote"`
	Port       int    `json:"port"`
	KE         string `json:"ke"` // host:port of the NTS-KE server
	DeadlineMs int    `json:"deadline_ms"`
	// client histories: IL = the client value has InterleavedMode set and is KEPT under the name Cid from
	// call to call (its interleaved-mode state is what the history is about)
	IL  bool   `json:"il"`
	Cid string `json:"cid"`
}

type clientRes struct {
	Ok  bool    `json:"ok"`
	Err string  `json:"err"`
	Ms  float64 `json:"ms"`
}

func childClient() {
	childLimits()
	log := childLogger()
	timebase.RegisterClock(sysClock{})
	in := bufio.NewScanner(os.Stdin)
	in.Buffer(make([]byte, 1<<16), 1<<20)
	out := json.NewEncoder(os.Stdout)
	fmt.Println("READY")
	os.Stdout.Sync()
	csptpc := map[string]*client.CSPTPClientIP{}
	ipc := map[string]*client.IPClient{}
	scc := map[string]*client.SCIONClient{}
	for in.Scan() {
		var cmd clientCmd
		if err := json.Unmarshal(in.Bytes(), &cmd); err != nil {
			fmt.Fprintln(os.Stderr, "c08 child: bad command:", err)
			os.Exit(3)
		}
		ctx, cancel := context.WithTimeout(context.Background(), time.Duration(cmd.DeadlineMs)*time.Millisecond)
		t0 := time.Now()
		var err error
		switch cmd.Op {
		case "ip":
			c := &client.IPClient{Log: log}
			if cmd.IL {
				if c = ipc[cmd.Cid]; c == nil {
					c = &client.IPClient{Log: log, InterleavedMode: true}
					ipc[cmd.Cid] = c
				}
			}
			if cmd.Auth {
				host, port, e := net.SplitHostPort(cmd.KE)
				if e != nil {
					panic(e)
				}
				c.Auth.Enabled = true
				c.Auth.NTSKEFetcher.TLSConfig = tls.Config{
					NextProtos:         []string{"ntske/1"},
					InsecureSkipVerify: true,
					ServerName:         host,
					MinVersion:         tls.VersionTLS13,
				}
				c.Auth.NTSKEFetcher.Port = port
				c.Auth.NTSKEFetcher.Log = log
			}
			laddr := &net.UDPAddr{IP: net.ParseIP(cmd.Local).To4()}
			raddr := &net.UDPAddr{IP: net.ParseIP(cmd.Remote).To4(), Port: cmd.Port}
			_, _, err = client.MeasureClockOffsetIP(ctx, log, c, laddr, raddr)
		case "scion":
			c := &client.SCIONClient{Log: log}
			if cmd.IL {
				if c = scc[cmd.Cid]; c == nil {
					c = &client.SCIONClient{Log: log, InterleavedMode: true}
					scc[cmd.Cid] = c
				}
			}
			c.Auth.Enabled = cmd.SPAO
			c.Auth.DRKeyFetcher = scionnet.NewFetcher(nil)
			ia := addr.IA(scIA)
			local := scionudp.UDPAddr{IA: ia, Host: &net.UDPAddr{IP: net.ParseIP(cmd.Local).To4()}}
			remote := scionudp.UDPAddr{IA: ia, Host: &net.UDPAddr{IP: net.ParseIP(cmd.Remote).To4(), Port: cmd.Port}}
			nh, e := net.ResolveUDPAddr("udp4", cmd.NextHop)
			if e != nil {
				panic(e)
			}
			sp := spath.Path{Src: ia, Dst: ia, DataplanePath: spath.Empty{}, NextHop: nh}
			if cmd.IL {
				// interfaces give the path a fingerprint: MeasureClockOffsetSCION keeps a client in interleaved
				// mode on the path it used last, a client without one is reset when the call starts
				sp.Meta = snet.PathMetadata{Interfaces: []snet.PathInterface{{IA: ia, ID: 1}, {IA: ia, ID: 2}}}
			}
			var ts time.Time
			ts, _, err = client.MeasureClockOffsetSCION(ctx, log, []*client.SCIONClient{c}, local, remote, []snet.Path{sp})
			if err == nil && ts.IsZero() {
				// a failed measurement is reported as the zero measurement
				err = fmt.Errorf("no measurement")
			}
		case "csptp":
			c := csptpc[cmd.Remote]
			if c == nil {
				c = &client.CSPTPClientIP{Log: log}
				csptpc[cmd.Remote] = c
			}
			_, _, err = c.MeasureClockOffset(ctx, netip.MustParseAddr(cmd.Local), netip.MustParseAddr(cmd.Remote))
		default:
			fmt.Fprintln(os.Stderr, "c08 child: unknown op", cmd.Op)
			os.Exit(3)
		}
		cancel()
		res := clientRes{Ok: err == nil, Ms: float64(time.Since(t0).Microseconds()) / 1000}
		if err != nil {
			res.Err = err.Error()
		}
		out.Encode(res)
		os.Stdout.Sync()
	}
	os.Exit(0)
}
