SPECIFICATION GSpec
CONSTANTS
  NC = 2
  MaxRounds = 1
  MaxTries = 1
  MaxDraws = 2
  SharedIdBuf = FALSE
  UidChecked = TRUE
  StoreAfterUid = TRUE
  ServeEager = TRUE
  RecvKinds <- KindsCore
INVARIANTS Emit
