// C15 driver: rounds enumerated by TLC from spec/Multipath.tla are replayed on
// the real client.MeasureClockOffsetSCION (and crypto.Sample / crypto.RandIntn):
//
//   - crypto/rand.Reader is replaced by a scripted reader, so that the real
//     rejection sampler takes exactly the words chosen by the case;
//   - every offered path is a real snet/path.Path (empty dataplane path, chosen
//     interface list => chosen fingerprint) whose underlay next hop is its own
//     loopback responder; a responder parses the SCION/UDP/NTP request, answers
//     through the real server handler (server.VerifHandleRequest /
//     VerifUpdateTXTimestamp, build tag verif) on a clock that is theta_p ahead
//     of real time, or misbehaves per script (invalid reply, silence, delay);
//   - clients are put "in interleaved mode on fingerprint f" with the verif
//     projection setter, carry a counting measurements.Filter and a DSCP that
//     identifies them on the wire.
//
// Where the offered paths come from (kind "session"): as in timeservice.go,
// ntpReferenceClockSCION.MeasureClockOffset, every round of a session hands
// pather.Paths(remoteIA) of one real scion.Pather to MeasureClockOffsetSCION.
// The Pather is started with StartPather against a scripted daemon and
// refreshed by the refresher's own statement (update, via the overlay hook
// VerifRefresh: harness/c15/overlay, added with `go test -overlay`); the
// offer a round is judged against is what that daemon answered last.
//
// Observed per round and written in model units for MultipathTrace.tla: which
// responder every client's requests reached, whether its first request was a
// basic one, Filter.Reset / Filter.Do calls, the interleaved-mode projection
// before/after, the returned offset and error.
package c15

import (
	"context"
	crand "crypto/rand"
	"encoding/binary"
	"fmt"
	"io"
	"log/slog"
	"net"
	"net/netip"
	"os"
	"strconv"
	"runtime"
	"slices"
	"sync"
	"sync/atomic"
	"testing"
	"time"

	"github.com/google/gopacket"
	"github.com/scionproto/scion/pkg/addr"
	"github.com/scionproto/scion/pkg/daemon"
	"github.com/scionproto/scion/pkg/segment/iface"
	"github.com/scionproto/scion/pkg/slayers"
	"github.com/scionproto/scion/pkg/snet"
	spath "github.com/scionproto/scion/pkg/snet/path"

	"example.com/scion-time/base/crypto"
	btimebase "example.com/scion-time/base/timebase"
	"example.com/scion-time/core/client"
	"example.com/scion-time/core/server"
	"example.com/scion-time/core/timebase"
	"example.com/scion-time/net/ntp"
	"example.com/scion-time/net/scion"
	"example.com/scion-time/net/udp"

	"verif/harness/internal/vio"
)

// ------------------------------------------------------------------ time
// One model unit of offset is half a second; thetas are even, so every
// midpoint of the model is an integer.  tol bounds the measurement noise that
// is still mapped onto the grid (loopback asymmetry is far below it).
const (
	unit = 500 * time.Millisecond
	tol  = 200 * time.Millisecond
	// The process-wide clock of the repository (timebase.Now) runs 16 s behind
	// real time.  The client uses it only for the request cookie, the era
	// reference, the 3 s interleaving window and the retry test (its t0/t3 are
	// kernel timestamps); the server handler uses it for its transmit time and
	// moves that to rx+1ns when it is not after the receive time - which is
	// always the case here, so a responder's timestamps are consistently on
	// its own clock real+theta for positive and negative theta.
	clockShift = 16 * time.Second
)

type shiftClock struct{}

func (shiftClock) Epoch() uint64                                { return 0 }
func (shiftClock) Now() time.Time                               { return time.Now().Add(-clockShift) }
func (shiftClock) Drift(time.Duration) time.Duration            { return 0 }
func (shiftClock) Step(time.Duration)                           {}
func (shiftClock) Adjust(time.Duration, time.Duration, float64) {}
func (shiftClock) Sleep(time.Duration)                          {}

var _ btimebase.SystemClock = shiftClock{}

var regOnce sync.Once

func registerClock() { regOnce.Do(func() { timebase.RegisterClock(shiftClock{}) }) }

// --------------------------------------------------------- scripted reader
type scriptReader struct {
	mu     sync.Mutex
	words  []uint32
	pos    int
	nread  int // 4-byte reads served
	odd    int // reads of another size (not from randInt31)
	filler uint32
}

func (r *scriptReader) Read(b []byte) (int, error) {
	r.mu.Lock()
	defer r.mu.Unlock()
	if len(b) != 4 {
		r.odd++
		for i := range b {
			b[i] = 0xa5
		}
		return len(b), nil
	}
	w := r.filler
	if r.pos < len(r.words) {
		w = r.words[r.pos]
		r.pos++
	}
	r.nread++
	binary.LittleEndian.PutUint32(b, w)
	return 4, nil
}

var readerMu sync.Mutex

func withReader(words []uint32, f func()) *scriptReader {
	readerMu.Lock()
	defer readerMu.Unlock()
	sr := &scriptReader{words: words, filler: 0xfffffff0}
	old := crand.Reader
	crand.Reader = sr
	defer func() { crand.Reader = old }()
	f()
	return sr
}

var _ io.Reader = (*scriptReader)(nil)

// ------------------------------------------------------------------ cases
type scriptJ struct {
	Fail int `json:"fail"` // 0 answer, 1 invalid reply (stratum 0), 2 silence
	Rank int `json:"rank"` // delay rank of the first answer (forces completion order)
}

type expJ struct {
	Asg    []int  `json:"asg"`
	Resets []int  `json:"resets"`
	Rng    []int  `json:"rng"`
	Err    string `json:"err"`
	Off    int    `json:"off"`
}

type tcase struct {
	Kind string `json:"kind"` // "round" | "sample" | "word" | "session" | (in a session) "refresh"
	// session: refreshes (offered = the daemon's answer) and rounds, in order
	Sid    int     `json:"sid"`
	Events []tcase `json:"events"`
	// round in a session: the specification expects residue of earlier rounds if the slice were shared
	ExpStale bool  `json:"exp_stale"`
	ID       int   `json:"id"`
	Gid      int   `json:"gid"`
	Gpos     int   `json:"gpos"`
	Glen     int   `json:"glen"`
	L        int   `json:"L"`
	D        int   `json:"D"`
	V        []int `json:"v"`   // per scripted word: residue class in 0..L-1
	Rej      []int `json:"rej"` // per scripted word: number of rejected words fed before it
	// round
	Nc        int       `json:"nc"`
	Offered   []int     `json:"offered"`
	Mode      []int     `json:"mode"`
	FreshKind []int     `json:"fresh_kind"`
	Theta     []int     `json:"theta"`
	Script    []scriptJ `json:"script"`
	Exp       expJ      `json:"exp"`
	// sample
	K int `json:"k"`
	N int `json:"n"`
	// word
	Words []uint32 `json:"words"`
}

// ----------------------------------------------------------------- records
type roundRec struct {
	Kind    string `json:"kind"`
	ID      int    `json:"id"`
	Gid     int    `json:"gid"`
	Gpos    int    `json:"gpos"`
	Glen    int    `json:"glen"`
	L       int    `json:"L"`
	D       int    `json:"D"`
	V       []int  `json:"v"`
	Nread   int    `json:"nread"` // accepted-word reads beyond the fed rejections = words consumed
	Nc      int    `json:"nc"`
	Offered []int  `json:"offered"`
	Mode    []int  `json:"mode"`
	Theta   []int  `json:"theta"`
	// where the offered paths came from: "caller" (a slice made for this call) or
	// "pather" (Pather.Paths of the session's path table; offered = the daemon's last answer)
	Src      string `json:"src"`
	Sid      int    `json:"sid"`
	Rnd      int    `json:"rnd"`       // number of the round in its session
	Since    int    `json:"since"`     // rounds of the session since the last refresh, before this one
	Nref     int    `json:"nref"`      // refreshes of the session so far
	Nans     int    `json:"nans"`      // answers the session's daemon gave so far (one per refresh)
	ExpStale bool   `json:"exp_stale"` // specification side: an earlier round since the refresh selected in place

	Probed     [][]int `json:"probed"`      // per client: responders (path indices) its requests reached
	Asg        []int   `json:"asg"`         // per client: the responder reached (first), 0 = none
	Nreq       []int   `json:"nreq"`        // per client: requests seen on the wire
	FirstBasic []bool  `json:"first_basic"` // per client: first request seen was not an interleaved one
	AfterEmpty []bool  `json:"after_empty"` // per client: prev.reference == "" after the round
	AfterMode  []int   `json:"after_mode"`  // per client: InterleavedModePath() after the round (fp, 0, -1 unknown)
	Freset     []int   `json:"freset"`      // per client: Filter.Reset calls
	FrEmpty    []bool  `json:"fr_empty"`    // per client: prev.reference == "" at every Filter.Reset call
	Okc        []bool  `json:"okc"`         // per client: a measurement value was produced (Filter.Do called)
	Meas       []int   `json:"meas"`        // per client: last value produced, model units
	Mnear      []bool  `json:"mnear"`       // per client: that value lies within tol of the grid
	Ret        int     `json:"ret"`
	RetNear    bool    `json:"ret_near"`
	Err        string  `json:"err"` // "none" | "nopath" | "other"
	RawOK      bool    `json:"raw_ok"`
	Judged     bool    `json:"judged"` // all produced values on the grid (else the FTM clause is not judged)
	Stray      int     `json:"stray"`

	ExpOffered []int  `json:"exp_offered"` // the offer of the case (for "pather": of the behaviour's last refresh)
	ExpAsg     []int  `json:"exp_asg"`
	ExpResets  []int  `json:"exp_resets"`
	ExpRng     []int  `json:"exp_rng"`
	ExpErr     string `json:"exp_err"`
	ExpOff     int    `json:"exp_off"`
	Scripted   []int  `json:"scripted"` // per client fail kind
}

type sampleRec struct {
	Kind  string  `json:"kind"`
	Gid   int     `json:"gid"`
	Gpos  int     `json:"gpos"`
	Glen  int     `json:"glen"`
	L     int     `json:"L"`
	D     int     `json:"D"`
	V     []int   `json:"v"`
	Nread int     `json:"nread"`
	K     int     `json:"k"`
	N     int     `json:"n"`
	Kret  int     `json:"kret"`
	Picks [][]int `json:"picks"`
	Res   []int   `json:"res"` // the candidate array after the call, ids 1..n
	ErrOK bool    `json:"errnil"`
}

type wordRec struct {
	Kind  string  `json:"kind"`
	N     int     `json:"n"`
	Limbs [][]int `json:"limbs"` // the words the call consumed, as [hi16, lo16]
	Res   int     `json:"res"`
	RawOK bool    `json:"raw_ok"` // 64-bit evaluation of t = 2^32 mod n, x > t, x % n
	Small bool    `json:"small"`  // n < 2^15: TLC evaluates the limb formula
}

// -------------------------------------------------------------- responders
var (
	localIA  = addr.MustParseIA("1-ff00:0:111")
	remoteIA = addr.MustParseIA("1-ff00:0:112")
)

type reqLog struct {
	client int
	basic  bool
}

type responder struct {
	idx  int // path index 1..
	conn *net.UDPConn
	addr *net.UDPAddr

	mu     sync.Mutex
	round  int
	theta  time.Duration
	script []scriptJ // per client (1-based index-1)
	log    []reqLog
	seen   map[int]int // client -> requests answered so far
	stray  int
	errs   []string
}

func newResponder(t testing.TB, idx int) *responder {
	conn, err := net.ListenUDP("udp4", &net.UDPAddr{IP: net.IPv4(127, 0, 0, 1)})
	if err != nil {
		t.Fatal(err)
	}
	// a long-lived socket with software receive timestamps keeps the kernel's
	// netstamp switch on (as the real server's sockets do); the client's
	// short-lived sockets would otherwise race with its deferred activation
	if err := udp.EnableRxTimestamps(conn); err != nil {
		t.Fatal(err)
	}
	r := &responder{idx: idx, conn: conn, addr: conn.LocalAddr().(*net.UDPAddr)}
	go r.serve()
	return r
}

func (r *responder) arm(round int, theta time.Duration, script []scriptJ) {
	r.mu.Lock()
	r.round, r.theta, r.script = round, theta, script
	r.log = nil
	r.seen = map[int]int{}
	r.stray = 0
	r.mu.Unlock()
}

func (r *responder) serve() {
	buf := make([]byte, 2048)
	for {
		n, from, err := r.conn.ReadFromUDPAddrPort(buf)
		if err != nil {
			return
		}
		r.handle(append([]byte(nil), buf[:n]...), from)
	}
}

func (r *responder) fail(s string) {
	r.mu.Lock()
	r.errs = append(r.errs, s)
	r.mu.Unlock()
}

func (r *responder) handle(pkt []byte, from netip.AddrPort) {
	var (
		scionLayer slayers.SCION
		hbhLayer   slayers.HopByHopExtnSkipper
		e2eLayer   slayers.EndToEndExtn
		udpLayer   slayers.UDP
		scmpLayer  slayers.SCMP
	)
	parser := gopacket.NewDecodingLayerParser(
		slayers.LayerTypeSCION, &scionLayer, &hbhLayer, &e2eLayer, &udpLayer, &scmpLayer)
	parser.IgnoreUnsupported = true
	decoded := make([]gopacket.LayerType, 4)
	if err := parser.DecodeLayers(pkt, &decoded); err != nil {
		r.fail("decode: " + err.Error())
		return
	}
	if len(decoded) < 2 || decoded[len(decoded)-1] != slayers.LayerTypeSCIONUDP {
		r.fail("not SCION/UDP")
		return
	}
	var req ntp.Packet
	if err := ntp.DecodePacket(&req, udpLayer.Payload); err != nil {
		r.fail("ntp decode: " + err.Error())
		return
	}
	if err := ntp.ValidateRequest(&req, udpLayer.SrcPort); err != nil {
		r.fail("ntp request: " + err.Error())
		return
	}
	dscp := int(scionLayer.TrafficClass >> 2)
	cl, tag := dscp&7, dscp>>3

	r.mu.Lock()
	if tag != r.round&7 || cl < 1 || cl > len(r.script) {
		r.stray++
		r.mu.Unlock()
		return
	}
	theta, sc, round := r.theta, r.script[cl-1], r.round
	nth := r.seen[cl]
	r.seen[cl] = nth + 1
	var zero ntp.Time64
	r.log = append(r.log, reqLog{client: cl, basic: req.OriginTime == zero && req.ReceiveTime == zero})
	r.mu.Unlock()

	if sc.Fail == 2 {
		return
	}
	if nth == 0 && sc.Rank > 0 {
		time.Sleep(time.Duration(sc.Rank) * 4 * time.Millisecond)
	}
	clientID := fmt.Sprintf("%s,r%d.p%d.c%d", scionLayer.SrcIA, round, r.idx, cl)
	rxt := time.Now().Add(theta)
	var txt0 time.Time
	var resp ntp.Packet
	server.VerifHandleRequest(clientID, &req, &rxt, &txt0, &resp)
	if sc.Fail == 1 {
		resp.Stratum = 0 // fails ntp.ValidateResponseMetadata at once
	}

	scionLayer.DstIA, scionLayer.SrcIA = scionLayer.SrcIA, scionLayer.DstIA
	scionLayer.DstAddrType, scionLayer.SrcAddrType = scionLayer.SrcAddrType, scionLayer.DstAddrType
	scionLayer.RawDstAddr, scionLayer.RawSrcAddr = scionLayer.RawSrcAddr, scionLayer.RawDstAddr
	rp, err := scionLayer.Path.Reverse()
	if err != nil {
		r.fail("reverse: " + err.Error())
		return
	}
	scionLayer.Path = rp
	scionLayer.NextHdr = slayers.L4UDP
	udpLayer.DstPort, udpLayer.SrcPort = udpLayer.SrcPort, udpLayer.DstPort
	udpLayer.SetNetworkLayerForChecksum(&scionLayer)
	pld := make([]byte, ntp.PacketLen)
	ntp.EncodePacket(&pld, &resp)

	buffer := gopacket.NewSerializeBuffer()
	options := gopacket.SerializeOptions{ComputeChecksums: true, FixLengths: true}
	payload := gopacket.Payload(pld)
	if err = payload.SerializeTo(buffer, options); err != nil {
		r.fail(err.Error())
		return
	}
	buffer.PushLayer(payload.LayerType())
	if err = udpLayer.SerializeTo(buffer, options); err != nil {
		r.fail(err.Error())
		return
	}
	buffer.PushLayer(udpLayer.LayerType())
	if err = scionLayer.SerializeTo(buffer, options); err != nil {
		r.fail(err.Error())
		return
	}
	buffer.PushLayer(scionLayer.LayerType())
	if _, err = r.conn.WriteToUDPAddrPort(buffer.Bytes(), from); err != nil {
		r.fail("write: " + err.Error())
		return
	}
	txt1 := time.Now().Add(theta)
	server.VerifUpdateTXTimestamp(clientID, rxt, &txt1)
}

// The kernel switches software receive timestamps on asynchronously after the
// first socket asked for them; wait until a timestamp really arrives.
func waitForRxTimestamps(t testing.TB) {
	a, err := net.ListenUDP("udp4", &net.UDPAddr{IP: net.IPv4(127, 0, 0, 1)})
	if err != nil {
		t.Fatal(err)
	}
	defer a.Close()
	if err = udp.EnableTimestamping(a, ""); err != nil {
		t.Fatal(err)
	}
	b, err := net.DialUDP("udp4", nil, a.LocalAddr().(*net.UDPAddr))
	if err != nil {
		t.Fatal(err)
	}
	defer b.Close()
	buf := make([]byte, 16)
	oob := make([]byte, udp.TimestampLen())
	okRun := 0
	for i := 0; i < 400 && okRun < 5; i++ {
		b.Write([]byte{1})
		a.SetReadDeadline(time.Now().Add(200 * time.Millisecond))
		_, oobn, _, _, err := a.ReadMsgUDPAddrPort(buf, oob[:cap(oob)])
		if err != nil {
			continue
		}
		if _, err = udp.TimestampFromOOBData(oob[:oobn]); err == nil {
			okRun++
		} else {
			okRun = 0
			time.Sleep(5 * time.Millisecond)
		}
	}
	if okRun < 5 {
		t.Fatal("kernel does not deliver software receive timestamps on loopback")
	}
}

// ----------------------------------------------------------- counting filter
type countFilter struct {
	c       *client.SCIONClient
	mu      sync.Mutex
	resets  int
	allEmpt bool
	dos     int
	last    time.Duration
	lastAt  time.Time
}

func (f *countFilter) Do(cTx, sRx, sTx, cRx time.Time) time.Duration {
	off := ntp.ClockOffset(cTx, sRx, sTx, cRx)
	f.mu.Lock()
	f.dos++
	f.last = off
	f.lastAt = time.Now()
	f.mu.Unlock()
	return off
}

func (f *countFilter) Reset() {
	empty := f.c.VerifPrev().Reference == ""
	f.mu.Lock()
	f.resets++
	f.allEmpt = f.allEmpt && empty
	f.mu.Unlock()
}

// ------------------------------------------------------------------ logging
type errCount struct {
	slog.Handler
	kts atomic.Int64
}

func (h *errCount) Enabled(_ context.Context, l slog.Level) bool { return l >= slog.LevelError }
func (h *errCount) Handle(_ context.Context, r slog.Record) error {
	h.kts.Add(1)
	if os.Getenv("C15_DEBUG") != "" {
		fmt.Fprintln(os.Stderr, "ERRLOG:", r.Message)
	}
	return nil
}
func (h *errCount) WithAttrs([]slog.Attr) slog.Handler { return h }
func (h *errCount) WithGroup(string) slog.Handler      { return h }

// ---------------------------------------------------------------- the world
type world struct {
	t     testing.TB
	resp  []*responder
	rhost *net.UDPAddr
	lhost *net.UDPAddr
	round int
	errh  *errCount
	log   *slog.Logger
	rnd   interface{ Intn(int) int }
}

func fpIfaces(f int) []snet.PathInterface {
	return []snet.PathInterface{
		{ID: iface.ID(f), IA: localIA},
		{ID: iface.ID(1000 + f), IA: remoteIA},
	}
}

func fpString(f int) string {
	return snet.Fingerprint(spath.Path{Meta: snet.PathMetadata{Interfaces: fpIfaces(f)}}).String()
}

func toUnits(d time.Duration) (int, bool) {
	m := int64(d) / int64(unit)
	rem := d - time.Duration(m)*unit
	if rem > unit/2 {
		m++
		rem -= unit
	} else if rem < -unit/2 {
		m--
		rem += unit
	}
	if rem < 0 {
		rem = -rem
	}
	return int(m), rem <= tol
}

// words for the scripted reader: for every v (a residue class modulo L) an
// accepted word congruent to v modulo L, optionally preceded by rejected ones
// (0 is rejected by randInt31 for every n >= 2 since t >= 0 and the test is x > t).
func (w *world) craft(c *tcase) []uint32 {
	var words []uint32
	L := uint32(c.L)
	if L == 0 {
		L = 1
	}
	for i, v := range c.V {
		if i < len(c.Rej) {
			for range c.Rej[i] {
				words = append(words, 0)
			}
		}
		q := uint32(1 + w.rnd.Intn(int((1<<32)/uint64(L))-2))
		words = append(words, q*L+uint32(v))
	}
	return words
}

func nrej(c *tcase) int {
	n := 0
	for _, x := range c.Rej {
		n += x
	}
	return n
}

// ------------------------------------------------------- the path service
// mkPaths: path index p (1-based) of an offer has fingerprint offered[p-1] and
// responder p as its underlay next hop.
func (w *world) mkPaths(offered []int) []snet.Path {
	for len(w.resp) < len(offered) {
		w.resp = append(w.resp, newResponder(w.t, len(w.resp)+1))
	}
	ps := make([]snet.Path, len(offered))
	for p := range offered {
		ps[p] = spath.Path{
			Src: localIA, Dst: remoteIA,
			DataplanePath: spath.Empty{},
			NextHop:       w.resp[p].addr,
			Meta:          snet.PathMetadata{Interfaces: fpIfaces(offered[p])},
		}
	}
	return ps
}

// pathDaemon is the scripted SCION daemon behind a session's Pather: it
// answers LocalIA and Paths (all update() asks) with the current offer, a
// fresh slice per answer.  Every other method of daemon.Connector is the nil
// embedded interface.
type pathDaemon struct {
	daemon.Connector
	mu       sync.Mutex
	offer    []snet.Path
	fps      []int
	answered []int // fingerprints of the latest answer given for remoteIA
	nans     int
	stop     bool
}

func (d *pathDaemon) set(ps []snet.Path, fps []int) {
	d.mu.Lock()
	d.offer, d.fps = ps, fps
	d.mu.Unlock()
}

func (d *pathDaemon) LocalIA(ctx context.Context) (addr.IA, error) {
	d.mu.Lock()
	stop := d.stop
	d.mu.Unlock()
	if stop {
		// the session is over; its refresher goroutine (it ignores its context
		// and never stops its ticker) ends here at its next turn
		runtime.Goexit()
	}
	return localIA, nil
}

func (d *pathDaemon) Paths(ctx context.Context, dst, src addr.IA, f daemon.PathReqFlags) ([]snet.Path, error) {
	d.mu.Lock()
	defer d.mu.Unlock()
	if dst != remoteIA {
		return nil, nil
	}
	d.answered = append([]int{}, d.fps...)
	d.nans++
	return append([]snet.Path{}, d.offer...), nil
}

func (d *pathDaemon) lastAnswer() ([]int, int) {
	d.mu.Lock()
	defer d.mu.Unlock()
	return append([]int{}, d.answered...), d.nans
}

// runRound: one call of MeasureClockOffsetSCION.  With pather == nil the
// offered paths are a slice made for this call; otherwise they are obtained
// as ntpReferenceClockSCION.MeasureClockOffset (timeservice.go) does:
//
//	ps = c.pather.Paths(c.remoteAddr.IA)
//	return client.MeasureClockOffsetSCION(ctx, c.log, c.ntpcs[:], c.localAddr, c.remoteAddr, ps)
//
// and offered is what the daemon answered at the last refresh.
func (w *world) runRound(c *tcase, pather *scion.Pather, offered []int) *roundRec {
	w.round++
	np := len(offered)
	for len(w.resp) < np {
		w.resp = append(w.resp, newResponder(w.t, len(w.resp)+1))
	}
	anyDrop := false
	for _, s := range c.Script {
		if s.Fail == 2 {
			anyDrop = true
		}
	}
	for p := range w.resp {
		th := time.Duration(0)
		if p < np && p < len(c.Theta) {
			th = time.Duration(c.Theta[p]) * unit
		}
		w.resp[p].arm(w.round, th, c.Script)
	}
	src := "pather"
	var callerPs []snet.Path
	if pather == nil {
		src = "caller"
		callerPs = w.mkPaths(offered)
	}
	laddr := udp.UDPAddr{IA: localIA, Host: &net.UDPAddr{IP: net.IPv4(127, 0, 0, 1).To4()}}
	raddr := udp.UDPAddr{IA: remoteIA, Host: &net.UDPAddr{IP: net.IPv4(127, 0, 0, 1).To4(), Port: 10123}}
	reference := raddr.IA.String() + "," + raddr.Host.String()
	fps := map[string]int{}
	for f := 1; f <= 9; f++ {
		fps[fpString(f)] = f
	}

	cs := make([]*client.SCIONClient, c.Nc)
	fs := make([]*countFilter, c.Nc)
	now := time.Now()
	for i := range c.Nc {
		sc := &client.SCIONClient{Log: w.log, DSCP: uint8((w.round&7)<<3 | (i + 1))}
		f := &countFilter{c: sc, allEmpt: true}
		sc.Filter = f
		prev := client.VerifPrev{
			CTxTime: ntp.Time64FromTime(now.Add(-900 * time.Millisecond)),
			SRxTime: ntp.Time64FromTime(now.Add(-899 * time.Millisecond)),
			CRxTime: ntp.Time64FromTime(now.Add(-898 * time.Millisecond)),
		}
		if m := c.Mode[i]; m != 0 {
			sc.InterleavedMode = true
			prev.Reference, prev.Path, prev.Interleaved = reference, fpString(m), true
			sc.VerifSetPrev(prev)
		} else {
			switch c.FreshKind[i] {
			case 1: // interleaving enabled, nothing on record
				sc.InterleavedMode = true
			case 2: // previous exchange on record but it was a basic one: not in interleaved mode
				sc.InterleavedMode = true
				prev.Reference, prev.Interleaved = reference, false
				if np > 0 {
					prev.Path = fpString(offered[i%np])
				}
				sc.VerifSetPrev(prev)
			case 3: // interleaved state on record but the mode is switched off
				prev.Reference, prev.Interleaved = reference, true
				if np > 0 {
					prev.Path = fpString(offered[i%np])
				}
				sc.VerifSetPrev(prev)
			}
		}
		cs[i], fs[i] = sc, f
	}

	timeout := 3 * time.Second
	if anyDrop {
		timeout = 300 * time.Millisecond
	}
	var off time.Duration
	var err error
	kts0 := w.errh.kts.Load()
	panicked := false
	var deadline time.Time
	sr := withReader(w.craft(c), func() {
		ctx, cancel := context.WithTimeout(context.Background(), timeout)
		defer cancel()
		deadline, _ = ctx.Deadline()
		defer func() {
			if r := recover(); r != nil {
				panicked = true
			}
		}()
		var ps []snet.Path
		if pather == nil {
			ps = callerPs
		} else {
			ps = pather.Paths(raddr.IA)
		}
		_, off, err = client.MeasureClockOffsetSCION(ctx, w.log, cs, laddr, raddr, ps)
	})
	if anyDrop {
		time.Sleep(10 * time.Millisecond) // let the timed-out measurement goroutines finish
	}

	rec := &roundRec{Kind: "round", ID: c.ID, Gid: c.Gid, Gpos: c.Gpos, Glen: c.Glen, L: c.L, D: c.D,
		V: nn(c.V), Nread: sr.nread - nrej(c), Nc: c.Nc, Offered: nn(offered), Mode: nn(c.Mode), Theta: nn(c.Theta),
		Src: src, ExpStale: c.ExpStale,
		Probed: make([][]int, c.Nc), Asg: make([]int, c.Nc), Nreq: make([]int, c.Nc),
		FirstBasic: make([]bool, c.Nc), AfterEmpty: make([]bool, c.Nc), AfterMode: make([]int, c.Nc),
		Freset: make([]int, c.Nc), FrEmpty: make([]bool, c.Nc), Okc: make([]bool, c.Nc),
		Meas: make([]int, c.Nc), Mnear: make([]bool, c.Nc),
		ExpOffered: nn(c.Offered), ExpAsg: nn(c.Exp.Asg), ExpResets: nn(c.Exp.Resets), ExpRng: nn(c.Exp.Rng), ExpErr: c.Exp.Err, ExpOff: c.Exp.Off,
		Scripted: make([]int, c.Nc), Judged: true}
	if sr.odd != 0 || sr.nread < nrej(c) {
		rec.Nread = -1
	}
	for i := range c.Nc {
		rec.Probed[i] = []int{}
		rec.Scripted[i] = c.Script[i].Fail
	}
	for p, r := range w.resp {
		r.mu.Lock()
		for _, e := range r.errs {
			w.t.Errorf("responder %d: %s", p+1, e)
		}
		r.errs = nil
		rec.Stray += r.stray
		for _, l := range r.log {
			i := l.client - 1
			if i >= c.Nc {
				rec.Stray++
				continue
			}
			if rec.Nreq[i] == 0 && len(rec.Probed[i]) == 0 {
				rec.FirstBasic[i] = l.basic
			}
			rec.Nreq[i]++
			if !slices.Contains(rec.Probed[i], p+1) {
				rec.Probed[i] = append(rec.Probed[i], p+1)
			}
		}
		r.mu.Unlock()
	}
	var vals []time.Duration
	for i := range c.Nc {
		if len(rec.Probed[i]) > 0 {
			rec.Asg[i] = rec.Probed[i][0]
		}
		pv := cs[i].VerifPrev()
		rec.AfterEmpty[i] = pv.Reference == ""
		if s := cs[i].InterleavedModePath(); s == "" {
			rec.AfterMode[i] = 0
		} else if f, ok := fps[s]; ok {
			rec.AfterMode[i] = f
		} else {
			rec.AfterMode[i] = -1
		}
		f := fs[i]
		f.mu.Lock()
		rec.Freset[i] = f.resets
		rec.FrEmpty[i] = f.allEmpt
		rec.Okc[i] = f.dos > 0
		rec.Mnear[i] = true
		if f.dos > 0 {
			rec.Meas[i], rec.Mnear[i] = toUnits(f.last)
			if !rec.Mnear[i] {
				rec.Judged = false
			}
			// a value produced while the context was ending may or may not have
			// been received by the collecting loop: such a round is not judged
			if f.lastAt.After(deadline.Add(-40 * time.Millisecond)) {
				rec.Judged = false
			}
		}
		if len(rec.Probed[i]) > 0 {
			if f.dos > 0 {
				vals = append(vals, f.last)
			} else {
				vals = append(vals, 0)
			}
		}
		f.mu.Unlock()
	}
	if w.errh.kts.Load() != kts0 {
		rec.Judged = false // a kernel timestamp was missing: offsets of this round are not trustworthy
	}
	switch {
	case panicked:
		rec.Err = "panic"
	case err == nil:
		rec.Err = "none"
	case err.Error() == "failed to measure clock offset: no path":
		rec.Err = "nopath"
	default:
		rec.Err = "other"
	}
	rec.Ret, rec.RetNear = toUnits(off)
	// the property's equality on the raw nanosecond values
	rec.RawOK = true
	if len(vals) > 0 {
		slices.Sort(vals)
		n := len(vals)
		f := (n - 1) / 3
		x, y := vals[f], vals[n-1-f]
		rec.RawOK = err == nil && !panicked && off == x+(y-x)/2
	}
	return rec
}

// starved: a round with a short deadline in which fewer clients than possible
// got a request onto the wire (a measurement goroutine scheduled only after
// the deadline on a loaded machine looks like that); such a round is repeated.
func (w *world) starved(c *tcase, rec *roundRec) bool {
	short := false
	for _, s := range c.Script {
		if s.Fail == 2 {
			short = true
		}
	}
	if !short {
		return false
	}
	n := 0
	for _, a := range rec.Asg {
		if a != 0 {
			n++
		}
	}
	return n < min(c.Nc, len(rec.Offered))
}

func (w *world) roundOK(c *tcase, rec *roundRec) bool {
	return rec.Judged && rec.RetNear && rec.Stray == 0 && !w.starved(c, rec)
}

// runSession: the rounds of one path table.  The Pather is the repository's,
// started by StartPather (its first update fills the table from the scripted
// daemon) and refreshed by update.
func (w *world) runSession(c *tcase) []*roundRec {
	d := &pathDaemon{}
	dsts := []addr.IA{remoteIA}
	var pather *scion.Pather
	var recs []*roundRec
	rnd, since, nref := 0, 0, 0
	for i := range c.Events {
		e := &c.Events[i]
		switch e.Kind {
		case "refresh":
			d.set(w.mkPaths(e.Offered), nn(e.Offered))
			if pather == nil {
				scion.VerifDaemonConnector = func(context.Context, string) daemon.Connector { return d }
				pather = scion.StartPather(context.Background(), w.log, "scripted", dsts)
				scion.VerifDaemonConnector = nil
			} else {
				scion.VerifRefresh(context.Background(), pather, d, dsts)
			}
			nref++
			since = 0
		case "round":
			if pather == nil {
				w.t.Fatalf("session %d: round before the first refresh", c.Sid)
			}
			offered, nans := d.lastAnswer()
			rec := w.runRound(e, pather, offered)
			rnd++
			rec.Sid, rec.Rnd, rec.Since, rec.Nref, rec.Nans = c.Sid, rnd, since, nref, nans
			since++
			recs = append(recs, rec)
		default:
			w.t.Fatalf("session %d: unknown event kind %q", c.Sid, e.Kind)
		}
	}
	d.mu.Lock()
	d.stop = true
	d.mu.Unlock()
	return recs
}

func nn(s []int) []int {
	if s == nil {
		return []int{}
	}
	return s
}

func runSample(w *world, c *tcase) *sampleRec {
	arr := make([]int, c.N)
	for i := range arr {
		arr[i] = i + 1
	}
	rec := &sampleRec{Kind: "sample", Gid: c.Gid, Gpos: c.Gpos, Glen: c.Glen, L: c.L, D: c.D, V: nn(c.V),
		K: c.K, N: c.N, Picks: [][]int{}}
	var err error
	panicked := false
	sr := withReader(w.craft(c), func() {
		defer func() {
			if r := recover(); r != nil {
				panicked = true
			}
		}()
		rec.Kret, err = crypto.Sample(context.Background(), c.K, c.N, func(dst, src int) {
			rec.Picks = append(rec.Picks, []int{dst, src})
			arr[dst] = arr[src]
		})
	})
	rec.Nread = sr.nread - nrej(c)
	if sr.odd != 0 {
		rec.Nread = -1
	}
	rec.Res = arr
	rec.ErrOK = err == nil && !panicked
	return rec
}

func runWord(c *tcase) *wordRec {
	rec := &wordRec{Kind: "word", N: c.N, Limbs: [][]int{}, Small: c.N < 1<<15}
	var err error
	panicked := false
	sr := withReader(c.Words, func() {
		defer func() {
			if r := recover(); r != nil {
				panicked = true
				rec.Res = -1
			}
		}()
		rec.Res, err = crypto.RandIntn(context.Background(), c.N)
	})
	used := sr.nread
	if used > len(c.Words) {
		used = len(c.Words) // fell through to the filler word: recorded as such below
	}
	raw := err == nil && !panicked
	t := (uint64(1) << 32) % uint64(c.N)
	for i := 0; i < sr.nread; i++ {
		x := sr.filler
		if i < len(c.Words) {
			x = c.Words[i]
		}
		rec.Limbs = append(rec.Limbs, []int{int(x >> 16), int(x & 0xffff)})
		last := i == sr.nread-1
		if (uint64(x) > t) != last {
			raw = false
		}
		if last && uint64(rec.Res) != uint64(x)%uint64(c.N) {
			raw = false
		}
	}
	if c.N < 2 {
		raw = raw && sr.nread == 0 && rec.Res == 0
	} else {
		raw = raw && sr.nread >= 1
	}
	rec.RawOK = raw
	return rec
}

func TestC15(t *testing.T) {
	registerClock()
	cases := vio.ReadCases[tcase](t)
	out := vio.Create(t)
	defer out.Close()
	errh := &errCount{}
	w := &world{t: t, errh: errh, log: slog.New(errh), rnd: vio.Rand()}
	for len(w.resp) < 6 {
		w.resp = append(w.resp, newResponder(t, len(w.resp)+1))
	}
	waitForRxTimestamps(t)
	rounds, retried, unjudged, sessions := 0, 0, 0, 0
	// wall budget (seconds) given by the check: when the rounds take far longer than planned (a
	// tree on which rounds only end with their context) the driver stops early, says so in a last
	// record, and the records written so far are judged; the check never reads the cut as a verdict
	budget, _ := strconv.Atoi(os.Getenv("VERIF_BUDGET_S"))
	start := time.Now()
	for i := range cases {
		if budget > 0 && time.Since(start) > time.Duration(budget)*time.Second {
			out.Emit(map[string]any{"kind": "cutoff", "done": i, "total": len(cases), "retried": retried})
			break
		}
		c := &cases[i]
		switch c.Kind {
		case "round":
			var rec *roundRec
			for attempt := 0; attempt < 3; attempt++ {
				rec = w.runRound(c, nil, nn(c.Offered))
				if w.roundOK(c, rec) {
					break
				}
				retried++
			}
			if !rec.Judged {
				unjudged++
			}
			out.Emit(rec)
			rounds++
			if rounds%2000 == 0 {
				server.VerifReset(nil)
			}
		case "session":
			// a disturbed round (measurement noise, a stray datagram) repeats the whole session
			var recs []*roundRec
			for attempt := 0; attempt < 3; attempt++ {
				recs = w.runSession(c)
				ok, j := true, 0
				for i := range c.Events {
					if c.Events[i].Kind == "round" {
						ok = ok && w.roundOK(&c.Events[i], recs[j])
						j++
					}
				}
				if ok {
					break
				}
				retried++
			}
			sessions++
			for _, rec := range recs {
				if !rec.Judged {
					unjudged++
				}
				out.Emit(rec)
				rounds++
				if rounds%2000 == 0 {
					server.VerifReset(nil)
				}
			}
		case "sample":
			out.Emit(runSample(w, c))
		case "word":
			out.Emit(runWord(c))
		default:
			t.Fatalf("unknown case kind %q", c.Kind)
		}
	}
	t.Logf("C15 rounds=%d sessions=%d retried=%d unjudged=%d kernel-timestamp-errors=%d records=%d",
		rounds, sessions, retried, unjudged, errh.kts.Load(), out.N)
	fmt.Fprintf(os.Stderr, "C15STAT rounds=%d sessions=%d retried=%d unjudged=%d\n", rounds, sessions, retried, unjudged)
}
