SPECIFICATION TSpec
INVARIANTS SOutcome SSeq SNoDivergence SSrvSilent
