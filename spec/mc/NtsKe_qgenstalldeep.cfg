SPECIFICATION GSpec
CONSTANTS
  Transport = "quic"
  ResidueAfterFailure = FALSE
  ShortCookieRead = FALSE
  DialResetsData = FALSE
  Alpns <- AlpnsOk
  Alphabet <- AlphaStall
  CutRecs <- CutStall
  MaxRecs = 3
  MaxDials = 1
  MaxCalls = 1
  MaxStore = 0
  CtxMode = "ignored"
  MaxStalls = 1
  StaleNextHop = FALSE
  Tails = TRUE
  Vias <- ViasAny
INVARIANTS EmitStalled RunAgrees
