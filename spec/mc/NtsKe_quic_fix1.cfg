SPECIFICATION Spec
CONSTANTS
  Transport = "quic"
  ResidueAfterFailure = FALSE
  ShortCookieRead = TRUE
  DialResetsData = FALSE
  Alpns <- AlpnsQuic
  Alphabet <- AlphaCore
  CutRecs <- CutCore
  MaxRecs = 4
  MaxDials = 3
  MaxCalls = 4
  MaxStore = 1
  CtxMode = "ignored"
  MaxStalls = 0
  StaleNextHop = FALSE
INVARIANTS TypeOK SuccessOnlyIf KeysAgree PoolIsIssued PoolReturned Destination NoResidue
PROPERTIES IgnoresNonCritical
