----------------------------- MODULE NtpExchange -----------------------------
(***************************************************************************)
(* One NTP client (core/client/client_ip.go measureClockOffsetIP; the SCION *)
(* client client_scion.go has the same state machine), one server           *)
(* (core/server/server.go, reduced to this client's record) and a network   *)
(* that drops, duplicates, delays and reorders datagrams.                   *)
(*                                                                         *)
(* Real time is the integer `now`; the client's clock reads `now`, the      *)
(* server's clock reads now + theta, theta may change between exchanges.    *)
(* Every timestamp is taken at its own tick, so timestamp values identify   *)
(* the event that produced them; the ghost fields ex (exchange = client     *)
(* attempt), h (server handling instance) and role travel with the value    *)
(* and are never inspected by the protocol actions, only by the property    *)
(* section (C03, and the acceptance predicate of C05).                      *)
(***************************************************************************)
EXTENDS Integers, Sequences, FiniteSets, TLC

CONSTANTS MaxAttempts,   \* client attempts (each opens a fresh socket)
          MaxDup,        \* duplications the network may perform in total
          Thetas,        \* possible server-minus-client clock offsets
          Gap,           \* the 3 s rule in ticks: interleaved iff cTx0 - prev.cTx <= Gap
          ItemCap,       \* pairs the server keeps for this client
          ReusePorts,    \* TRUE: a later attempt may get the socket id of an earlier one
          StrictGap,     \* TRUE: "<" (SCION client), FALSE: "<=" (IP client)
          FwdStamps      \* what the client's end host may attach to a delivered response:
                         \* {"none"} for IP; for SCION the end-host forwarder may append its
                         \* own receive timestamp (end-to-end option 253): "none" | "inside" |
                         \* "before" | "after" | "bad" (see ClientRecv)

Nil == [v |-> -1000, ex |-> 0, h |-> 0, role |-> "nil"]
TS(v, ex, h, role) == [v |-> v, ex |-> ex, h |-> h, role |-> role]

VARIABLES now, theta,
          prev,      \* client: [ref, il, cTx, cRx, sRx] of the last accepted exchange
          pend,      \* client: outstanding request or NoReq
          attempts,  \* number of attempts started
          net,       \* set of datagrams in flight (requests and responses)
          dups,      \* duplications done
          store,     \* server: sequence of [rx, tx] pairs kept for the client
          spend,     \* server: handled requests whose reply is not sent yet (set)
          hcount,    \* server handling instances so far
          thetaAt,   \* ghost: hcount -> theta in force when instance h handled its request
          res        \* observation: outcome of the last client receive / timeout

vars == <<now, theta, prev, pend, attempts, net, dups, store, spend, hcount, thetaAt, res>>

NoReq == [sock |-> 0]
NoRes == [kind |-> "none"]

Init ==
  /\ now = 0 /\ theta \in Thetas
  /\ prev = [ref |-> FALSE, il |-> FALSE, cTx |-> Nil, cRx |-> Nil, sRx |-> Nil]
  /\ pend = NoReq /\ attempts = 0
  /\ net = {} /\ dups = 0
  /\ store = << >> /\ spend = {} /\ hcount = 0
  /\ thetaAt = << >>
  /\ res = NoRes

(***************************************************************************)
(* Client: request construction                                            *)
(***************************************************************************)
Within(d) == IF StrictGap THEN d < Gap ELSE d <= Gap

ClientSend ==
  /\ pend = NoReq /\ attempts < MaxAttempts
  /\ LET k    == attempts + 1
         cTx0 == TS(now + 1, k, 0, "cTx0")        \* timebase.Now() before the send
         cTx1 == TS(now + 2, k, 0, "cTx")         \* kernel transmit timestamp
         il   == prev.ref /\ Within(cTx0.v - prev.cTx.v)
         wire == IF il THEN [org |-> prev.sRx, rx |-> prev.cRx, tx |-> prev.cTx]
                       ELSE [org |-> Nil, rx |-> Nil, tx |-> cTx0]
         sock == IF ReusePorts THEN 1 ELSE k
     IN /\ pend' = [sock |-> sock, ex |-> k, il |-> il, wire |-> wire, cTx1 |-> cTx1, retries |-> 0]
        /\ net' = net \cup {[kind |-> "req", sock |-> sock, ex |-> k, wire |-> wire, copy |-> 0]}
        /\ attempts' = k
  /\ now' = now + 2
  /\ res' = NoRes
  /\ UNCHANGED <<theta, prev, dups, store, spend, hcount, thetaAt>>

\* nothing happens for longer than the 3 s rule allows
Idle ==
  /\ pend = NoReq /\ prev.ref /\ now - prev.cTx.v <= Gap
  /\ now' = prev.cTx.v + Gap + 1
  /\ res' = NoRes
  /\ UNCHANGED <<theta, prev, pend, attempts, net, dups, store, spend, hcount, thetaAt>>

(***************************************************************************)
(* Network                                                                 *)
(***************************************************************************)
NetDrop(m) ==
  /\ m \in net /\ net' = net \ {m}
  /\ res' = NoRes
  /\ UNCHANGED <<now, theta, prev, pend, attempts, dups, store, spend, hcount, thetaAt>>

NetDup(m) ==
  /\ m \in net /\ dups < MaxDup /\ m.copy = 0
  /\ net' = net \cup {[m EXCEPT !.copy = 1]}
  /\ dups' = dups + 1
  /\ res' = NoRes
  /\ UNCHANGED <<now, theta, prev, pend, attempts, store, spend, hcount, thetaAt>>

(***************************************************************************)
(* Server (handleRequest / updateTXTimestamp for one client, cf.           *)
(* ServerStore.tla; receive times are unique here, so no collision loop)   *)
(***************************************************************************)
Idx(v) == IF \E i \in DOMAIN store : store[i].rx.v = v
          THEN CHOOSE i \in DOMAIN store : store[i].rx.v = v ELSE 0
MinIdxS == CHOOSE i \in DOMAIN store : \A j \in DOMAIN store : store[i].rx.v <= store[j].rx.v

ServerRecv(m) ==
  /\ m \in net /\ m.kind = "req"
  /\ LET h    == hcount + 1
         rxt  == TS(now + 1 + theta, m.ex, h, "sRx")
         txt0 == TS(now + 2 + theta, m.ex, h, "sTx0")     \* timebase.Now() in handleRequest
         o    == Idx(m.wire.org.v)
         il   == m.wire.rx.v # m.wire.tx.v /\ o # 0
         rep  == IF il THEN [org |-> m.wire.rx, rx |-> rxt, tx |-> store[o].tx]
                       ELSE [org |-> m.wire.tx, rx |-> rxt, tx |-> txt0]
         pair == [rx |-> rxt, tx |-> txt0]
     IN /\ store' = IF o # 0 THEN [store EXCEPT ![o] = pair]
                     ELSE IF Len(store) = ItemCap THEN [store EXCEPT ![MinIdxS] = pair]
                     ELSE Append(store, pair)
        /\ spend' = spend \cup {[h |-> h, sock |-> m.sock, ex |-> m.ex, rxt |-> rxt, txt0 |-> txt0, rep |-> rep]}
        /\ hcount' = h
        /\ thetaAt' = Append(thetaAt, theta)
  /\ net' = net \ {m}
  /\ now' = now + 2
  /\ res' = NoRes
  /\ UNCHANGED <<theta, prev, pend, attempts, dups>>

\* the reply leaves the server; its kernel transmit timestamp is read (or lost)
ServerTx(p, lost) ==
  /\ p \in spend
  /\ LET ktx == TS(now + 1 + theta, p.ex, p.h, "sTx")
         x   == Idx(p.rxt.v)
     IN store' =
          IF x = 0 THEN store
          ELSE IF ~lost THEN [store EXCEPT ![x].tx = ktx]
          ELSE IF store[x].tx.v = p.txt0.v
               THEN SubSeq([store EXCEPT ![x] = store[Len(store)]], 1, Len(store) - 1)
               ELSE [store EXCEPT ![x].tx = p.txt0]
  /\ spend' = spend \ {p}
  /\ net' = net \cup {[kind |-> "resp", sock |-> p.sock, ex |-> p.ex, h |-> p.h, wire |-> p.rep, copy |-> 0]}
  /\ now' = now + 1
  /\ res' = NoRes
  /\ UNCHANGED <<theta, prev, pend, attempts, dups, hcount, thetaAt>>

\* the server's clock is stepped (only while it is not in the middle of an exchange)
ThetaChange ==
  /\ spend = {}
  /\ \E t \in Thetas \ {theta} : theta' = t
  /\ res' = NoRes
  /\ UNCHANGED <<now, prev, pend, attempts, net, dups, store, spend, hcount, thetaAt>>

(***************************************************************************)
(* Client: receive loop                                                    *)
(***************************************************************************)
Close(sock) == {m \in net : ~(m.kind = "resp" /\ m.sock = sock)}

(***************************************************************************)
(* The response reaches the client's end host.  Over SCION the end-host    *)
(* forwarder (dispatcher) may append a control-message-shaped timestamp    *)
(* (end-to-end option 253) before handing the datagram to the client's     *)
(* socket; what it attached is the environment's choice fw:                *)
(*   "none"   no option (always so over IP)                                *)
(*   "inside" its genuine receive time of this response: taken after the   *)
(*            request left and before the socket got the datagram          *)
(*   "before" a value from before the request's transmission (stale or     *)
(*            foreign stamp, stepped forwarder clock, forged option)       *)
(*   "after"  a value later than the socket's own receive time             *)
(*   "bad"    bytes that are no timestamp control message                  *)
(* The forwarder handles the datagram at now + 1, the socket's kernel      *)
(* receive timestamp is taken at now + 2.  The client uses the stamp as    *)
(* its receive time only if it lies inside the exchange (client_scion.go:  *)
(* !cRxTime0.Before(cTxTime1) && !cRxTime0.After(cRxTime)), otherwise the  *)
(* socket's; a stamp that is not this exchange's receive time carries the  *)
(* ghost role "fwd" and exchange 0.                                        *)
(***************************************************************************)
FwdStamp(fw, sock) ==
  CASE fw = "inside" -> TS(sock.v - 1, pend.ex, 0, "cRx")
    [] fw = "before" -> TS(pend.cTx1.v - 1, 0, 0, "fwd")
    [] fw = "after"  -> TS(sock.v + 1, 0, 0, "fwd")
    [] OTHER         -> Nil                      \* "none", "bad": nothing to read
RxTime(fw, sock) ==
  LET s == FwdStamp(fw, sock)
  IN IF s # Nil /\ s.v >= pend.cTx1.v /\ s.v <= sock.v THEN s ELSE sock

ClientRecv(m, fw) ==
  /\ pend # NoReq /\ m \in net /\ m.kind = "resp" /\ m.sock = pend.sock
  /\ fw \in FwdStamps
  /\ now' = now + 2
  /\ LET cRx  == RxTime(fw, TS(now + 2, pend.ex, 0, "cRx"))
         w    == m.wire
         ilr  == pend.il /\ w.org.v = pend.wire.rx.v
         bad  == ~ilr /\ w.org.v # pend.wire.tx.v
         t0   == IF ilr THEN prev.cTx ELSE pend.cTx1
         t1   == IF ilr THEN prev.sRx ELSE w.rx
         t2   == w.tx
         t3   == IF ilr THEN prev.cRx ELSE cRx
     IN IF bad
        THEN \* unexpected origin: skipped once, an error the second time
             IF pend.retries = 0
             THEN /\ pend' = [pend EXCEPT !.retries = 1]
                  /\ net' = net \ {m}
                  /\ res' = [kind |-> "skip"]
                  /\ UNCHANGED prev
             ELSE /\ pend' = NoReq
                  /\ net' = Close(pend.sock) \ {m}
                  /\ res' = [kind |-> "error"]
                  /\ UNCHANGED prev
        ELSE IF t3.v - t0.v < 0
        THEN /\ pend' = NoReq /\ net' = Close(pend.sock) \ {m}
             /\ res' = [kind |-> "panic"] /\ UNCHANGED prev
        ELSE IF t2.v - t1.v < 0
        THEN /\ pend' = NoReq /\ net' = Close(pend.sock) \ {m}
             /\ res' = [kind |-> "error"] /\ UNCHANGED prev
        ELSE /\ pend' = NoReq
             /\ net' = Close(pend.sock) \ {m}
             /\ prev' = [ref |-> TRUE, il |-> ilr, cTx |-> pend.cTx1, cRx |-> cRx, sRx |-> w.rx]
             /\ res' = [kind |-> "ok", il |-> ilr, t0 |-> t0, t1 |-> t1, t2 |-> t2, t3 |-> t3,
                        off2 |-> (t1.v - t0.v) + (t2.v - t3.v),
                        rtd |-> (t3.v - t0.v) - (t2.v - t1.v)]
  /\ UNCHANGED <<theta, attempts, dups, store, spend, hcount, thetaAt>>

ClientTimeout ==
  /\ pend # NoReq
  /\ pend' = NoReq
  /\ net' = Close(pend.sock)
  /\ res' = [kind |-> "timeout"]
  /\ UNCHANGED <<now, theta, prev, attempts, dups, store, spend, hcount, thetaAt>>

Next ==
  \/ ClientSend \/ Idle \/ ThetaChange \/ ClientTimeout
  \/ \E m \in net : NetDrop(m) \/ NetDup(m) \/ ServerRecv(m) \/ (\E fw \in FwdStamps : ClientRecv(m, fw))
  \/ \E p \in spend, lost \in BOOLEAN : ServerTx(p, lost)

Spec == Init /\ [][Next]_vars

(***************************************************************************)
(* Property section (C03)                                                  *)
(***************************************************************************)
Ok == res.kind = "ok"

\* the four timestamps combined belong to one exchange, in the right roles, and
\* the two server timestamps to one handling of that exchange's request
SameExchange ==
  Ok => /\ res.t0.role = "cTx" /\ res.t1.role = "sRx" /\ res.t3.role = "cRx"
        /\ res.t2.role \in {"sTx", "sTx0"}
        /\ res.t0.ex = res.t1.ex /\ res.t1.ex = res.t2.ex /\ res.t2.ex = res.t3.ex
        /\ res.t1.h = res.t2.h

\* reported offset within half the round-trip delay of the true offset that was
\* in force when the server handled that exchange (doubled to stay in integers)
Abs(x) == IF x < 0 THEN -x ELSE x
HalfRTT ==
  Ok => Abs(res.off2 - 2 * thetaAt[res.t1.h]) <= res.rtd

\* the state kept for interleaved mode always describes one exchange
PrevConsistent ==
  prev.ref => (prev.cTx.ex = prev.cRx.ex /\ prev.cRx.ex = prev.sRx.ex
               /\ prev.cTx.role = "cTx" /\ prev.cRx.role = "cRx" /\ prev.sRx.role = "sRx")

NoPanic == res.kind # "panic"
=============================================================================
