--------------------------- MODULE ServerStoreGen ---------------------------
(***************************************************************************)
(* Behaviour generator for the conformance drivers (tlc -simulate).        *)
(* Instead of letting the simulator enumerate the ~10^4 successors of      *)
(* every state, each step draws the operation's parameters with            *)
(* RandomElement, biased towards the interesting region: origins that are  *)
(* on record for the client, receive times that collide with stored ones,  *)
(* clock readings around the receive time, lost and early kernel           *)
(* timestamps.  Every generated step is a step of ServerStore!Next.        *)
(***************************************************************************)
EXTENDS ServerStore, Json
VARIABLE hist

Pick(S) == RandomElement(S)

\* (parameters are bound with \E over singleton sets so that every random
\* draw is made exactly once per step)
GHandle(l) ==
  \E c \in {Pick(Clients)}, k1 \in {Pick(1 .. 3)}, k2 \in {Pick(1 .. 3)} :
    LET recs == RxSet(store[c]) IN
    \E org \in {IF recs # {} /\ k1 # 1 THEN Pick(recs) ELSE Pick(T \cup {NoOrigin})},
       mrx \in {Pick(Marks)}, mtx \in {Pick(Marks)},
       rxt0 \in {IF recs # {} /\ k2 = 1 THEN Pick(recs) ELSE Pick(T)},
       clk \in {Pick(T)} :
      Handle(l, c, [origin |-> org, rx |-> mrx, tx |-> mtx], rxt0, clk)

GUpdate(l) ==
  \E k \in {Pick(1 .. 3)} :
    \E t1 \in {IF k = 1 THEN pend[l].txt ELSE Pick((pend[l].rxt - 1) .. (pend[l].rxt + 3))} :
      UpdateTx(l, t1)

GNext ==
  /\ nops < MaxOps
  /\ nops' = nops + 1
  /\ \E l \in {Pick(Listeners)}, k \in {Pick(1 .. 4)} :
       IF pend[l] = None THEN GHandle(l)
       ELSE IF k # 1 THEN GUpdate(l)
       ELSE \E l2 \in {Pick(Listeners)} : IF pend[l2] = None THEN GHandle(l2) ELSE GUpdate(l2)
  \* keep clear of the known finding C06-aba (a stale pending exchange whose
  \* receive timestamp is on record again); it has its own scenario file
  /\ \A k \in stale' : pend'[k] # None => pend'[k].rxt \notin RxSet(store'[pend'[k].c])
  /\ hist' = Append(hist, inp')

HInit == Init /\ hist = << >>
HSpec == HInit /\ [][GNext]_<<vars, hist>>
\* (a walk that runs into the guard above ends early and is still emitted
\* when it is at least MinLen long)
MinLen == 8
Emit == (nops = MaxOps) => PrintT(<<"CASE", ToJson(hist)>>)
=============================================================================
