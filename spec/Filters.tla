------------------------------ MODULE Filters ------------------------------
(***************************************************************************)
(* The two offset filters behind measurements.Filter                       *)
(*   core/client/filter_flash.go   LuckyPacketFilter  (Do, Reset, New...)  *)
(*   core/client/filter_ntimed.go  NtimedFilter       (Do, Reset)          *)
(* Two independent machines in one module; the constant Which selects the  *)
(* one that moves (the other one stays in its initial state).              *)
(*                                                                         *)
(* Lucky packet filter: modelled completely (window, both sorts, the       *)
(* truncation to pick, the median arithmetic with Go's truncating `/ 2`).  *)
(* A sample is the pair (off, rtd) that ntp.ClockOffset / RoundTripDelay   *)
(* compute from the four timestamps; the driver concretises every pair to  *)
(* four timestamps giving exactly these two numbers.                       *)
(*                                                                         *)
(* Ntimed filter: control skeleton only.  The running averages alo, amid,  *)
(* ahi, alolo, ahihi are IEEE-754 doubles; what the skeleton keeps of them *)
(* is `dep`, the list of samples they summarise.  Whether a sample is      *)
(* below / above the learned limits (failLo, failHi in the code) is an     *)
(* input of the Sample action.                                             *)
(***************************************************************************)
EXTENDS Integers, Sequences, FiniteSets, TLC

CONSTANTS Which,          \* "lucky" | "ntimed"
          Caps, Picks,    \* arguments of NewLuckyPacketFilter; the zero value is added by UnconfToo
          UnconfToo,      \* BOOLEAN: also the zero value &LuckyPacketFilter{}
          Offs, Rtds,     \* sample values (model units)
          DistinctOnly,   \* BOOLEAN: only histories with pairwise distinct delays
          Clk0s,          \* clock epochs at which an Ntimed behaviour may start (0: equal to the zero value's epoch)
          MaxEv,          \* bound on the number of events of a behaviour
          FilterAverage   \* const filterAverage = 20.0

VARIABLES cap,     \* cap(f.state); 0 for the zero value (unconfigured)
          kcfg,    \* the `pick` argument as configured
          pick,    \* f.pick = min(pick, cap)
          win,     \* f.state: FIFO window, sequence of [off, rtd]
          lout,    \* last value returned by LuckyPacketFilter.Do
          lastn,   \* ghost (property section): the last max(cap,1) samples since the last Reset
          navg,    \* f.navg (integral values only)
          fepoch,  \* f.epoch
          clk,     \* timebase.Epoch()
          dep,     \* ids of the samples summarised in alo, amid, ahi, alolo, ahihi
          nout,    \* result of NtimedFilter.Do if that was the last event: branch, dependency set, ...
          since,   \* ghost (property section): ids of the samples since the last Reset / clock step
          hist     \* events so far (behaviour generator, bounds)

lvars == <<cap, kcfg, pick, win, lout, lastn>>
nvars == <<navg, fepoch, clk, dep, nout, since>>
vars  == <<lvars, nvars, hist>>

Min2(a, b) == IF a <= b THEN a ELSE b
Max2(a, b) == IF a >= b THEN a ELSE b
Abs(x) == IF x >= 0 THEN x ELSE -x
\* Go's `/ 2` on time.Duration truncates toward zero
TDiv2(z) == IF z >= 0 THEN z \div 2 ELSE -((-z) \div 2)
Last(s) == s[Len(s)]
LastN(s, n) == IF Len(s) <= n THEN s ELSE SubSeq(s, Len(s) - n + 1, Len(s))

(***************************************************************************)
(* Lucky packet filter                                                     *)
(***************************************************************************)
\* slices.SortFunc on at most 12 elements is a plain insertion sort: element
\* i moves left while it is strictly smaller than its predecessor, i.e. it
\* ends up behind all earlier elements whose key is <= its own (stable).
\* f is the name of the key field ("rtd" or "off").
InsertSorted(s, m, f) ==
  LET p == Cardinality({i \in DOMAIN s : s[i][f] <= m[f]})
  IN SubSeq(s, 1, p) \o <<m>> \o SubSeq(s, p + 1, Len(s))
RECURSIVE InsSort(_, _)
InsSort(s, f) ==
  IF s = << >> THEN << >>
  ELSE InsertSorted(InsSort(SubSeq(s, 1, Len(s) - 1), f), s[Len(s)], f)

NoOut == [has |-> FALSE, v |-> 0]
Some(v) == [has |-> TRUE, v |-> v]

\* LuckyPacketFilter.Do for the sample m = [off, rtd]; c = cap(f.state), p = f.pick, w = f.state
LDo(c, p, w, m) ==
  IF c = 0 THEN [win |-> w, out |-> m.off]               \* cap(f.state) == 0: raw offset
  ELSE
    LET w1 == IF Len(w) = c THEN Tail(w) ELSE w          \* copy(state[0:], state[1:]); state = state[:len-1]
        w2 == Append(w1, m)                              \* append
        lp == IF p < Len(w2)                             \* luckyPkts = copy of state
              THEN SubSeq(InsSort(w2, "rtd"), 1, p)      \* sort by rtd, truncate to pick
              ELSE w2
        so == InsSort(lp, "off")                         \* sort by off
        n  == Len(so)
        i  == n \div 2                                   \* 0-based index n/2 is 1-based i+1
    IN [win |-> w2,
        out |-> IF n % 2 # 0 THEN so[i + 1].off
                ELSE so[i].off + TDiv2(so[i + 1].off - so[i].off)]

\* NewLuckyPacketFilter(c, k) (c, k >= 1) or the zero value (c = k = 0)
LNew(c, k) ==
  /\ cap' = c /\ kcfg' = k /\ pick' = Min2(k, c)
  /\ win' = << >> /\ lout' = NoOut /\ lastn' = << >>

LSampleCore(o, r) ==
  LET m == [off |-> o, rtd |-> r]
      d == LDo(cap, pick, win, m)
  IN /\ win' = d.win
     /\ lout' = Some(d.out)
     /\ lastn' = LastN(Append(lastn, m), Max2(cap, 1))
     /\ UNCHANGED <<cap, kcfg, pick>>

LResetCore ==                                            \* f.state = f.state[:0]
  /\ win' = << >>
  /\ lout' = NoOut
  /\ lastn' = << >>
  /\ UNCHANGED <<cap, kcfg, pick>>

(***************************************************************************)
(* Ntimed filter, control skeleton                                         *)
(***************************************************************************)
\* the if / else-if chain of Do; n is f.navg after the increment
Branch(n, fl, fh) ==
  IF fl /\ fh THEN 1
  ELSE IF n > 3 /\ fl THEN 2          \* mid = amid + (hi - ahi)
  ELSE IF n > 3 /\ fh THEN 3          \* mid = amid + (lo - alo)
  ELSE 4
\* branches 1 and 4 leave mid = (lo + hi) / 2; Do returns Inv(Duration(mid)),
\* which is the NTP clock offset ((sRx - cTx) + (sTx - cRx)) / 2
RawBranch(b) == b \in {1, 4}

NNoOut == [has |-> FALSE, br |-> 0, raw |-> FALSE, n |-> 0, fl |-> FALSE, fh |-> FALSE, dep |-> << >>]

NNew(e) ==                                               \* NewNtimedFilter: zero value
  /\ navg' = 0 /\ fepoch' = 0 /\ dep' = << >> /\ nout' = NNoOut
  /\ clk' = e /\ since' = << >>

NSampleCore(id, fl, fh) ==
  LET stale == fepoch # clk                              \* if f.epoch != timebase.Epoch() { f.Reset() }
      n0 == IF stale THEN 0 ELSE navg
      d0 == IF stale THEN << >> ELSE dep
      n1 == IF n0 < FilterAverage THEN n0 + 1 ELSE n0    \* if f.navg < filterAverage { f.navg += 1.0 }
      b  == Branch(n1, fl, fh)
      d1 == Append(d0, id)                               \* the five averages absorb the sample
  IN /\ navg' = n1
     /\ fepoch' = clk
     /\ dep' = d1
     /\ nout' = [has |-> TRUE, br |-> b, raw |-> RawBranch(b), n |-> n1, fl |-> fl, fh |-> fh, dep |-> d1]
     /\ since' = Append(since, id)
     /\ UNCHANGED clk

NResetCore ==                                            \* NtimedFilter.Reset
  /\ fepoch' = clk /\ navg' = 0 /\ dep' = << >>
  /\ nout' = NNoOut
  /\ since' = << >>
  /\ UNCHANGED clk

NEpochCore ==                                            \* the clock is stepped: timebase.Epoch() changes
  /\ clk' = clk + 1
  /\ since' = << >>
  /\ nout' = NNoOut                                      \* (nout: result of a Do not yet followed by another event)
  /\ UNCHANGED <<navg, fepoch, dep>>                     \* the filter notices in its next Do only

(***************************************************************************)
(* Behaviours                                                              *)
(***************************************************************************)
LEv(t, o, r, v) == [t |-> t, off |-> o, rtd |-> r, out |-> v]
NEv(t, fl, fh, b, n) == [t |-> t, fl |-> fl, fh |-> fh, br |-> b, n |-> n]

UsedRtds == {hist[i].rtd : i \in {j \in DOMAIN hist : hist[j].t = "s"}}

LInit ==
  /\ \/ cap \in Caps /\ kcfg \in Picks
     \/ UnconfToo /\ cap = 0 /\ kcfg = 0
  /\ pick = Min2(kcfg, cap)
  /\ win = << >> /\ lout = NoOut /\ lastn = << >>
NInit ==
  /\ navg = 0 /\ fepoch = 0 /\ dep = << >> /\ nout = NNoOut /\ since = << >>
  /\ clk \in Clk0s
LIdle == cap = 0 /\ kcfg = 0 /\ pick = 0 /\ win = << >> /\ lout = NoOut /\ lastn = << >>
NIdle == navg = 0 /\ fepoch = 0 /\ dep = << >> /\ nout = NNoOut /\ since = << >> /\ clk = 0

Init ==
  /\ hist = << >>
  /\ IF Which = "lucky" THEN LInit /\ NIdle ELSE LIdle /\ NInit

LSample(o, r) ==
  /\ DistinctOnly => r \notin UsedRtds
  /\ LSampleCore(o, r)
  /\ hist' = Append(hist, LEv("s", o, r, lout'.v))
LReset == LResetCore /\ hist' = Append(hist, LEv("r", 0, 0, 0))

NSample(fl, fh) ==
  /\ NSampleCore(Len(hist) + 1, fl, fh)
  /\ hist' = Append(hist, NEv("s", fl, fh, nout'.br, nout'.n))
NReset == NResetCore /\ hist' = Append(hist, NEv("r", FALSE, FALSE, 0, 0))
NEpoch == NEpochCore /\ hist' = Append(hist, NEv("e", FALSE, FALSE, 0, 0))

Next ==
  /\ Len(hist) < MaxEv
  /\ \/ /\ Which = "lucky"
        /\ (\E o \in Offs, r \in Rtds : LSample(o, r)) \/ LReset
        /\ UNCHANGED nvars
     \/ /\ Which = "ntimed"
        /\ (\E fl, fh \in BOOLEAN : NSample(fl, fh)) \/ NReset \/ NEpoch
        /\ UNCHANGED lvars

Spec == Init /\ [][Next]_vars

(***************************************************************************)
(* Property section (C17)                                                  *)
(*                                                                         *)
(* Lucky packet: "returns the median offset of the k lowest-round-trip-    *)
(* delay samples among the last N samples (k capped at N; unconfigured:    *)
(* the raw offset)", for windows with pairwise distinct delays.  Stated    *)
(* over the ghost `lastn` (what an observer of the inputs knows), not      *)
(* over the filter's window, and declaratively (no sorting).               *)
(***************************************************************************)
DistinctRtd(w) == \A i, j \in DOMAIN w : i # j => w[i].rtd # w[j].rtd

\* the positions of the k samples with the lowest delay (unique for distinct delays)
Lowest(w, k) ==
  CHOOSE S \in SUBSET (DOMAIN w) :
    /\ Cardinality(S) = Min2(k, Len(w))
    /\ \A i \in S, j \in (DOMAIN w) \ S : w[i].rtd < w[j].rtd

\* j-th smallest offset (with multiplicity) among positions S of w
Kth(w, S, j) ==
  CHOOSE x \in {w[i].off : i \in S} :
    /\ Cardinality({i \in S : w[i].off < x}) < j
    /\ Cardinality({i \in S : w[i].off <= x}) >= j

\* v is the median of the offsets at positions S; for an even count the mean
\* of the two middle values, rounded to an integer in either direction
IsMedianOf(v, w, S) ==
  LET n == Cardinality(S)
  IN IF n % 2 = 1 THEN v = Kth(w, S, (n + 1) \div 2)
     ELSE Abs(2 * v - (Kth(w, S, n \div 2) + Kth(w, S, n \div 2 + 1))) <= 1

\* Rule(window, N, k)
RuleHolds(v, w, N, k) == IsMedianOf(v, w, Lowest(w, Min2(k, N)))

DoEqualsRule ==
  (lout.has /\ cap > 0 /\ DistinctRtd(lastn)) => RuleHolds(lout.v, lastn, cap, kcfg)
UnconfiguredRaw ==
  (lout.has /\ cap = 0) => lout.v = Last(lastn).off
\* Reset leaves nothing behind: the window is empty, and at all times the
\* window is exactly the last N samples seen since (so later outputs depend
\* on those samples only)
ResetEmpties ==
  (hist # << >> /\ Last(hist).t = "r" /\ Which = "lucky") => win = << >>
WindowIsLastN == cap > 0 => win = lastn

(***************************************************************************)
(* Ntimed: "returns the raw offset while fewer than four samples have been *)
(* seen since the last reset and whenever a sample lies within its learned *)
(* delay bounds; after a clock step or an explicit reset its output        *)
(* depends only on samples seen since".                                    *)
(***************************************************************************)
InBounds(o) == ~o.fl /\ ~o.fh
RawWhen ==
  nout.has => ((Len(since) <= 3 \/ InBounds(nout)) => nout.raw)
HistoryIndependent ==
  nout.has => nout.dep = since
ResetIsInit ==
  (hist # << >> /\ Last(hist).t = "r" /\ Which = "ntimed") =>
     (navg = 0 /\ dep = << >> /\ fepoch = clk)

(***************************************************************************)
(* Implementation facts beyond the statement (strict mode / drift only)    *)
(***************************************************************************)
\* both limits violated: also the raw offset
RawBothFail == (nout.has /\ nout.fl /\ nout.fh) => nout.raw
\* the counter is the number of samples since, saturating
NavgCounts == nout.has => nout.n = Min2(Len(since), FilterAverage)

TypeOK ==
  /\ cap \in Nat /\ pick \in Nat /\ pick <= Max2(cap, 0)
  /\ Len(win) <= cap
  /\ navg \in 0 .. FilterAverage
=============================================================================
