// SCION framing for the association driver (assoc_test.go): the real
// client.SCIONClient with Auth.NTSEnabled, a same-AS empty path whose next hop is
// the harness's proxy, the key exchange over TLS (Fetcher.QUIC.Enabled = false)
// against the scripted peer.  The NTP/NTS payload is transport independent: the
// proxy takes it out of the client's SCION/UDP datagram, lets the real IP server
// answer it, and frames the (crafted) answer as the SCION/UDP reply.
// unwrapSCION / wrapSCION are the genuine-framing halves of scionT.Unwrap / Wrap
// of harness/c03/transport.go (that package registers its own clock and cannot
// be imported here).
package c05nts

import (
	"context"
	"crypto/tls"
	"fmt"
	"net"
	"net/netip"
	"strconv"
	"time"

	"github.com/google/gopacket"
	"github.com/scionproto/scion/pkg/addr"
	"github.com/scionproto/scion/pkg/slayers"
	"github.com/scionproto/scion/pkg/slayers/path/empty"
	"github.com/scionproto/scion/pkg/snet"
	spath "github.com/scionproto/scion/pkg/snet/path"

	"example.com/scion-time/core/client"
	"example.com/scion-time/net/ntske"
	"example.com/scion-time/net/udp"
)

var testIA = addr.MustParseIA("1-ff00:0:110")

type scionMeta struct {
	SrcIA, DstIA     addr.IA
	SrcHost, DstHost netip.Addr
	SrcPort, DstPort uint16
}

func unwrapSCION(b []byte) ([]byte, *scionMeta, error) {
	var (
		scn  slayers.SCION
		hbh  slayers.HopByHopExtnSkipper
		e2e  slayers.EndToEndExtnSkipper
		udpl slayers.UDP
	)
	parser := gopacket.NewDecodingLayerParser(slayers.LayerTypeSCION, &scn, &hbh, &e2e, &udpl)
	parser.IgnoreUnsupported = true
	decoded := make([]gopacket.LayerType, 0, 4)
	if err := parser.DecodeLayers(b, &decoded); err != nil {
		return nil, nil, err
	}
	if len(decoded) == 0 || decoded[len(decoded)-1] != slayers.LayerTypeSCIONUDP {
		return nil, nil, fmt.Errorf("client sent a non-UDP SCION packet: %v", decoded)
	}
	sa, err := scn.SrcAddr()
	if err != nil {
		return nil, nil, err
	}
	da, err := scn.DstAddr()
	if err != nil {
		return nil, nil, err
	}
	m := &scionMeta{SrcIA: scn.SrcIA, DstIA: scn.DstIA, SrcHost: sa.IP(), DstHost: da.IP(),
		SrcPort: udpl.SrcPort, DstPort: udpl.DstPort}
	return append([]byte{}, udpl.Payload...), m, nil
}

// wrapSCION frames payload as the reply to the request that had metadata m.
func wrapSCION(payload []byte, m *scionMeta) []byte {
	var scn slayers.SCION
	scn.Version = 0
	scn.FlowID = 1
	scn.SrcIA, scn.DstIA = m.DstIA, m.SrcIA
	if err := scn.SetSrcAddr(addr.HostIP(m.DstHost)); err != nil {
		panic(err)
	}
	if err := scn.SetDstAddr(addr.HostIP(m.SrcHost)); err != nil {
		panic(err)
	}
	scn.PathType = empty.PathType
	scn.Path = empty.Path{}
	scn.NextHdr = slayers.L4UDP
	udpl := slayers.UDP{SrcPort: m.DstPort, DstPort: m.SrcPort}
	udpl.SetNetworkLayerForChecksum(&scn)
	buffer := gopacket.NewSerializeBuffer()
	opts := gopacket.SerializeOptions{ComputeChecksums: true, FixLengths: true}
	if err := gopacket.SerializeLayers(buffer, opts, &scn, &udpl, gopacket.Payload(payload)); err != nil {
		panic(err)
	}
	return append([]byte{}, buffer.Bytes()...)
}

func (l *lane) newSCIONClient(il bool) {
	c := &client.SCIONClient{Log: l.log, InterleavedMode: il}
	if l.idx%2 == 1 {
		l.flt = &recFilter{}
		c.Filter = l.flt
	}
	c.Auth.NTSEnabled = true
	c.Auth.NTSKEFetcher.TLSConfig.InsecureSkipVerify = true
	c.Auth.NTSKEFetcher.TLSConfig.ServerName = l.ip.String()
	c.Auth.NTSKEFetcher.TLSConfig.MinVersion = tls.VersionTLS13
	c.Auth.NTSKEFetcher.Port = strconv.Itoa(ntske.ServerPortIP)
	c.Auth.NTSKEFetcher.Log = l.log
	l.sc = c
}

func (l *lane) measureSCION(ctx context.Context) (time.Time, time.Duration, error) {
	local := udp.UDPAddr{IA: testIA, Host: &net.UDPAddr{IP: l.ip}}
	remote := udp.UDPAddr{IA: testIA, Host: &net.UDPAddr{IP: l.ip, Port: proxyPort}}
	// same-AS empty path whose next hop is the proxy; the metadata gives it a
	// non-empty fingerprint so that interleaved mode is sticky (as harness/c03)
	p := spath.Path{Src: testIA, Dst: testIA, DataplanePath: spath.Empty{}, NextHop: &net.UDPAddr{IP: l.ip, Port: proxyPort},
		Meta: snet.PathMetadata{Interfaces: []snet.PathInterface{{IA: testIA, ID: 1}, {IA: testIA, ID: 2}}}}
	return client.MeasureClockOffsetSCION(ctx, l.log, []*client.SCIONClient{l.sc}, local, remote, []snet.Path{p})
}

func (l *lane) verifPrev() client.VerifPrev {
	if l.sc != nil {
		return l.sc.VerifPrev()
	}
	return l.c.VerifPrev()
}

func (l *lane) fetcher() *ntske.Fetcher {
	if l.sc != nil {
		return &l.sc.Auth.NTSKEFetcher
	}
	return &l.c.Auth.NTSKEFetcher
}

func (l *lane) inIL() bool {
	if l.sc != nil {
		return l.sc.InInterleavedMode()
	}
	return l.c.InInterleavedMode()
}
