SPECIFICATION TSpec
CONSTANTS
  PlaceholderTypedAsCookie = TRUE
  CapReply = FALSE
PROPERTIES TStrictProp
POSTCONDITION Consumed
