--------------------------- MODULE ShmRefClockMC ---------------------------
EXTENDS ShmRefClock, TLC, Json

DlBoth  == {TRUE, FALSE}
DlNone  == {FALSE}
DlOnly  == {TRUE}

\* ---- spec -> code: complete scripts (writer finished, all calls made)
Done == wk > NSamples /\ ncalls = MaxCalls /\ rpc = "idle"
Emit == Done => PrintT(<<"CASE", ToJson([kind |-> "script", writer |-> WriterKind, mode |-> Mode, init |-> Zero, ev |-> hist])>>)

\* ---- static segments: arbitrary field values, no writer, one call
PairsFull  == {<<0, 0>>, <<1, 1999>>, <<1, 2000>>, <<999999, 999999999>>, <<5, 999>>, <<-1, 0>>, <<1000000, 0>>,
               <<1000000, 1000000000>>}
PairsSmall == {<<0, 0>>, <<1, 1999>>, <<1, 2000>>, <<999999, 999999999>>, <<-1, 0>>}
ModesFull  == {0, 1, 2, -1}
ModesSmall == {0, 1, 2}
ValidsFull == {0, 1, 2, -1}
ValidsSmall == {0, 1, 2}
CONSTANTS SModes, SValids, SPairs, SCounts
StaticSegs == {[mode |-> m, count |-> c, cs |-> a, cu |-> cp[1], rs |-> b, ru |-> rp[1], valid |-> v,
                cn |-> cp[2], rn |-> rp[2]] :
                 m \in SModes, c \in SCounts, a \in {0, 1}, b \in {0, 1}, v \in SValids, cp \in SPairs, rp \in SPairs}
InitStatic ==
  /\ seg \in StaticSegs
  /\ wpc = 1 /\ wk = 1 /\ wold = 0
  /\ rpc = "idle" /\ ri = 1 /\ t = Zero /\ dl = FALSE /\ tries = 0 /\ ncalls = 0
  /\ results = << >> /\ rwrites = << >> /\ hist = << >>
\* the initial segment is not part of hist: carried by t of the first attempt; keep it in a view-free way
SpecStatic == InitStatic /\ [][Reader]_vars
DoneStatic == ncalls = 1 /\ rpc = "idle"
\* the initial segment is recovered from the first attempt's copy (t) when rejected, or results[1] when used
Seg0 == IF Len(results) > 0 THEN results[1] ELSE seg
EmitStatic == DoneStatic => PrintT(<<"CASE", ToJson([kind |-> "static", writer |-> "none", mode |-> Seg0.mode,
                                                     init |-> Seg0, ev |-> hist])>>)
=============================================================================
