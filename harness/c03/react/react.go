// Package react holds the log-independent observation primitives the client
// harnesses (harness/c03, harness/c05nts) use to learn what a client under test
// did with a datagram: the kernel's view of the client's socket (does it still
// exist, has the datagram been taken out of its receive queue) and the Go
// runtime's view of the goroutines of the measurement call (are they all parked
// again). Nothing here depends on the repository under test.
package react

import (
	"bytes"
	"fmt"
	"net/netip"
	"os"
	"runtime"
	"strconv"
	"strings"
)

// ---------------------------------------------------------------- sockets

// Sock is the kernel's state of one UDP socket (a line of /proc/net/udp).
type Sock struct {
	Open  bool   // a socket is bound to the address
	RxQ   int    // bytes charged to its receive side (datagrams not yet read + error queue)
	Inode uint64 // identity of the socket (a later socket on the same port has another one)
}

func key(ap netip.AddrPort) []byte {
	a := ap.Addr().Unmap().As4()
	// /proc/net/udp prints the address as a host-order 32-bit word, the port as is
	return []byte(fmt.Sprintf(" %02X%02X%02X%02X:%04X ", a[3], a[2], a[1], a[0], ap.Port()))
}

// UDP looks the IPv4 sockets bound to aps up in one reading of /proc/net/udp.
func UDP(aps ...netip.AddrPort) ([]Sock, error) {
	b, err := os.ReadFile("/proc/net/udp")
	if err != nil {
		return nil, err
	}
	res := make([]Sock, len(aps))
	for i, ap := range aps {
		k := key(ap)
		at := 0
		for {
			j := bytes.Index(b[at:], k)
			if j < 0 {
				break
			}
			j += at
			// the local address is the first address column: "  sl: LOCAL REMOTE st tx:rx ..."
			ls := bytes.LastIndexByte(b[:j+1], '\n') + 1
			le := bytes.IndexByte(b[j:], '\n')
			if le < 0 {
				le = len(b) - j
			}
			f := strings.Fields(string(b[ls : j+le]))
			if len(f) >= 10 && " "+f[1]+" " == string(k) {
				res[i].Open = true
				if q := strings.SplitN(f[4], ":", 2); len(q) == 2 {
					v, _ := strconv.ParseUint(q[1], 16, 64)
					res[i].RxQ = int(v)
				}
				res[i].Inode, _ = strconv.ParseUint(f[9], 10, 64)
				break
			}
			at = j + 1
		}
	}
	return res, nil
}

// UDPSure is UDP for a socket that is expected to exist: /proc/net/udp is not an
// atomic snapshot (read in several pieces, an entry can be missed while other
// sockets come and go), so "not there" is believed only after several readings.
// A reading that lists the socket is always true.
func UDPSure(ap netip.AddrPort, more ...netip.AddrPort) ([]Sock, error) {
	aps := append([]netip.AddrPort{ap}, more...)
	var st []Sock
	var err error
	for try := 0; try < 4; try++ {
		if st, err = UDP(aps...); err != nil || st[0].Open {
			break
		}
	}
	return st, err
}

// ------------------------------------------------------------- goroutines

// GoID is the id of the calling goroutine.
func GoID() int64 {
	var buf [64]byte
	n := runtime.Stack(buf[:], false)
	s := strings.TrimPrefix(string(buf[:n]), "goroutine ")
	if i := strings.IndexByte(s, ' '); i > 0 {
		id, _ := strconv.ParseInt(s[:i], 10, 64)
		return id
	}
	return -1
}

// Snap is the state of all goroutines at one instant.
type Snap struct {
	state  map[int64]string
	parent map[int64]int64
}

var stackBuf = make(chan []byte, 1)

func init() { stackBuf <- make([]byte, 1<<20) }

// Goroutines takes a snapshot (runtime.Stack of all goroutines).
func Goroutines() *Snap {
	buf := <-stackBuf
	n := runtime.Stack(buf, true)
	for n == len(buf) {
		buf = make([]byte, 2*len(buf))
		n = runtime.Stack(buf, true)
	}
	s := &Snap{state: map[int64]string{}, parent: map[int64]int64{}}
	for _, blk := range bytes.Split(buf[:n], []byte("\n\n")) {
		if !bytes.HasPrefix(blk, []byte("goroutine ")) {
			continue
		}
		eol := bytes.IndexByte(blk, '\n')
		if eol < 0 {
			eol = len(blk)
		}
		h := string(blk[len("goroutine "):eol])
		sp := strings.IndexByte(h, ' ')
		lb, rb := strings.IndexByte(h, '['), strings.LastIndexByte(h, ']')
		if sp < 0 || lb < 0 || rb < lb {
			continue
		}
		id, err := strconv.ParseInt(h[:sp], 10, 64)
		if err != nil {
			continue
		}
		st := h[lb+1 : rb]
		if c := strings.IndexByte(st, ','); c >= 0 {
			st = st[:c]
		}
		s.state[id] = st
		if c := bytes.LastIndex(blk, []byte("\ncreated by ")); c >= 0 {
			l := blk[c+1:]
			if e := bytes.IndexByte(l, '\n'); e >= 0 {
				l = l[:e]
			}
			if g := bytes.LastIndex(l, []byte(" in goroutine ")); g >= 0 {
				p, err := strconv.ParseInt(string(l[g+len(" in goroutine "):]), 10, 64)
				if err == nil {
					s.parent[id] = p
				}
			}
		}
	}
	stackBuf <- buf
	return s
}

// State of goroutine g ("IO wait", "select", "runnable", ...); ok = false when it is gone.
func (s *Snap) State(g int64) (string, bool) {
	st, ok := s.state[g]
	return st, ok
}

func parked(st string) bool {
	for _, p := range []string{"IO wait", "select", "chan receive", "chan send", "semacquire", "sync.", "sleep"} {
		if strings.HasPrefix(st, p) {
			return true
		}
	}
	return false
}

// Family: root and the goroutines started (transitively) by it that still exist.
func (s *Snap) Family(root int64) []int64 {
	var res []int64
	for g := range s.state {
		for x, n := g, 0; n < 64; n++ {
			if x == root {
				res = append(res, g)
				break
			}
			p, ok := s.parent[x]
			if !ok {
				break
			}
			x = p
		}
	}
	return res
}

// Parked tells whether the call running in goroutine root (and every goroutine
// it started) is blocked, one of them in network I/O: nothing of it is running
// or runnable, so whatever it had to do with the datagrams it has read is done.
// present = false when root itself has ended.
func (s *Snap) Parked(root int64) (parked_, present bool) {
	if _, ok := s.state[root]; !ok {
		return false, false
	}
	io := false
	for _, g := range s.Family(root) {
		st := s.state[g]
		if !parked(st) {
			return false, true
		}
		if strings.HasPrefix(st, "IO wait") {
			io = true
		}
	}
	return io, true
}
