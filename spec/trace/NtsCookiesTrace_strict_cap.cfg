SPECIFICATION TSpec
CONSTANTS
  PlaceholderTypedAsCookie = TRUE
  CapReply = TRUE
PROPERTIES TStrictProp
POSTCONDITION Consumed
