-------------------------------- MODULE Wire --------------------------------
(***************************************************************************)
(* Wire codecs of scion-time (property C14):                               *)
(*   net/ntp/ntp.go       EncodePacket / DecodePacket, LVM accessors       *)
(*   net/csptp/csptp.go   Encode/Decode of Message, RequestTLV, ResponseTLV*)
(*   net/nts/nts.go       extension fields (pack/unpack, EncodePacket,     *)
(*                        DecodePacket, authenticate)                      *)
(*   net/ntske/cookies.go ServerCookie / EncryptedServerCookie TLVs        *)
(*   net/ntske/ntske.go   record pack (the reader is in NtsKeStream.tla)   *)
(*                                                                         *)
(* Everything is modelled on byte strings (sequences over 0..255).  A      *)
(* fixed-width integer field is represented by its big-endian byte string  *)
(* (two's complement for signed fields), which is exact for every width    *)
(* although TLC's integers have 32 bits.                                   *)
(*                                                                         *)
(* Switch (DESIGN 1.1): PlaceholderTypedAsCookie = FALSE is the code       *)
(* (default in every cfg); TRUE is the code before fix 69cd14a             *)
(* (CookiePlaceholder.pack used extCookie) -- kept in Wire_faithful.cfg as  *)
(* a self-test: the property section must reject it.                        *)
(*                                                                         *)
(* Histories of calls (the results of earlier calls stay valid while the    *)
(* codecs are called again; property section (f)): the state machine over   *)
(* an allocator that may or may not hand out fresh storage is WireHist.tla  *)
(* (it EXTENDS this module; switch Recycle), the codecs behind one          *)
(* interface are section 5 here.                                            *)
(***************************************************************************)
EXTENDS Integers, Sequences, FiniteSets, TLC

CONSTANT PlaceholderTypedAsCookie

(***************************************************************************)
(* Bytes                                                                   *)
(***************************************************************************)
Byte == 0 .. 255
U16(n) == << (n \div 256) % 256, n % 256 >>            \* binary.BigEndian.PutUint16 (uint16 truncation)
U16At(b, p) == b[p + 1] * 256 + b[p + 2]               \* binary.BigEndian.Uint16(b[p:]), p is Go's 0-based offset
Zeros(n) == [i \in 1 .. n |-> 0]
Fill(n, v) == [i \in 1 .. n |-> v]
Pad4(n) == ((n + 3) \div 4) * 4                        \* (n + 3) & ^3
PadLen(n) == (4 - (n % 4)) % 4                         \* (-n) % 4 on uint16
\* x := make([]byte, n); copy(x, b[p:])   (short copy leaves zeros)
Take(b, p, n) == [i \in 1 .. n |-> IF p + i <= Len(b) THEN b[p + i] ELSE 0]
Min2(a, b) == IF a <= b THEN a ELSE b
RECURSIVE Flat(_)
Flat(ss) == IF ss = << >> THEN << >> ELSE Head(ss) \o Flat(Tail(ss))
Lens(ss) == [i \in DOMAIN ss |-> Len(ss[i])]

(***************************************************************************)
(* 1. Fixed layouts (NTP header, CSPTP message and TLVs)                   *)
(*    row: field name (the Go selector path), offset, width in bytes,      *)
(*    type  "u" unsigned / "i" signed / "a" byte array / "pad" zero fill,  *)
(*    cond  "always" / "ssds" (FlagField & TLVFlagServerStateDS set)       *)
(***************************************************************************)
Row(f, off, w, ty, cond) == [f |-> f, off |-> off, w |-> w, ty |-> ty, cond |-> cond]

NtpLayout == <<
  Row("LVM", 0, 1, "u", "always"),
  Row("Stratum", 1, 1, "u", "always"),
  Row("Poll", 2, 1, "i", "always"),
  Row("Precision", 3, 1, "i", "always"),
  Row("RootDelay.Seconds", 4, 2, "u", "always"),
  Row("RootDelay.Fraction", 6, 2, "u", "always"),
  Row("RootDispersion.Seconds", 8, 2, "u", "always"),
  Row("RootDispersion.Fraction", 10, 2, "u", "always"),
  Row("ReferenceID", 12, 4, "u", "always"),
  Row("ReferenceTime.Seconds", 16, 4, "u", "always"),
  Row("ReferenceTime.Fraction", 20, 4, "u", "always"),
  Row("OriginTime.Seconds", 24, 4, "u", "always"),
  Row("OriginTime.Fraction", 28, 4, "u", "always"),
  Row("ReceiveTime.Seconds", 32, 4, "u", "always"),
  Row("ReceiveTime.Fraction", 36, 4, "u", "always"),
  Row("TransmitTime.Seconds", 40, 4, "u", "always"),
  Row("TransmitTime.Fraction", 44, 4, "u", "always") >>

CsptpMsgLayout == <<
  Row("SdoIDMessageType", 0, 1, "u", "always"),
  Row("PTPVersion", 1, 1, "u", "always"),
  Row("MessageLength", 2, 2, "u", "always"),
  Row("DomainNumber", 4, 1, "u", "always"),
  Row("MinorSdoID", 5, 1, "u", "always"),
  Row("FlagField", 6, 2, "u", "always"),
  Row("CorrectionField", 8, 8, "i", "always"),
  Row("MessageTypeSpecific", 16, 4, "u", "always"),
  Row("SourcePortIdentity.ClockID", 20, 8, "u", "always"),
  Row("SourcePortIdentity.Port", 28, 2, "u", "always"),
  Row("SequenceID", 30, 2, "u", "always"),
  Row("ControlField", 32, 1, "u", "always"),
  Row("LogMessageInterval", 33, 1, "i", "always"),
  Row("Timestamp.Seconds", 34, 6, "a", "always"),
  Row("Timestamp.Nanoseconds", 40, 4, "u", "always") >>

ReqTlvLayout == <<
  Row("Type", 0, 2, "u", "always"),
  Row("Length", 2, 2, "u", "always"),
  Row("OrganizationID", 4, 3, "a", "always"),
  Row("OrganizationSubType", 7, 3, "a", "always"),
  Row("FlagField", 10, 4, "u", "always"),
  Row("pad0", 14, 22, "pad", "always"),
  Row("pad1", 36, 18, "pad", "ssds") >>

RespTlvLayout == <<
  Row("Type", 0, 2, "u", "always"),
  Row("Length", 2, 2, "u", "always"),
  Row("OrganizationID", 4, 3, "a", "always"),
  Row("OrganizationSubType", 7, 3, "a", "always"),
  Row("FlagField", 10, 4, "u", "always"),
  Row("Error", 14, 2, "u", "always"),
  Row("RequestIngressTimestamp.Seconds", 16, 6, "a", "always"),
  Row("RequestIngressTimestamp.Nanoseconds", 22, 4, "u", "always"),
  Row("RequestCorrectionField", 26, 8, "i", "always"),
  Row("UTCOffset", 34, 2, "i", "always"),
  Row("ServerStateDS.GMPriority1", 36, 1, "u", "ssds"),
  Row("ServerStateDS.GMClockClass", 37, 1, "u", "ssds"),
  Row("ServerStateDS.GMClockAccuracy", 38, 1, "u", "ssds"),
  Row("ServerStateDS.GMClockVariance", 39, 2, "u", "ssds"),
  Row("ServerStateDS.GMPriority2", 41, 1, "u", "ssds"),
  Row("ServerStateDS.GMClockID", 42, 8, "u", "ssds"),
  Row("ServerStateDS.StepsRemoved", 50, 2, "u", "ssds"),
  Row("ServerStateDS.TimeSource", 52, 1, "u", "ssds"),
  Row("ServerStateDS.Reserved", 53, 1, "u", "ssds") >>

Msgs == {"ntp", "csptp", "reqtlv", "resptlv"}
Layout(m) == CASE m = "ntp" -> NtpLayout [] m = "csptp" -> CsptpMsgLayout
               [] m = "reqtlv" -> ReqTlvLayout [] m = "resptlv" -> RespTlvLayout
HasCond(m) == m \in {"reqtlv", "resptlv"}
\* declared lengths: ntp.PacketLen, csptp.MinMessageLength, Encoded{Request,Response}TLVLength
DeclLen(m, ssds) == CASE m = "ntp" -> 48 [] m = "csptp" -> 44 [] OTHER -> IF ssds THEN 54 ELSE 36

Conds(m) == IF HasCond(m) THEN BOOLEAN ELSE {FALSE}
\* (tables as constant functions: TLC evaluates them once)
RowsT == [m \in Msgs |-> {Layout(m)[i] : i \in DOMAIN Layout(m)}]
Rows(m) == RowsT[m]
DataRowsT == [m \in Msgs |-> {r \in RowsT[m] : r.ty # "pad"}]
DataRows(m) == DataRowsT[m]
FieldNamesT == [m \in Msgs |-> {r.f : r \in DataRowsT[m]}]
FieldNames(m) == FieldNamesT[m]
RowOfT == [m \in Msgs |-> [f \in FieldNamesT[m] |-> CHOOSE r \in RowsT[m] : r.f = f]]
RowOf(m, f) == RowOfT[m][f]
ActiveRow(r, ssds) == r.cond = "always" \/ ssds
\* TLVFlagServerStateDS is bit 0 of the 4-byte FlagField
Ssds(m, vals) == HasCond(m) /\ vals["FlagField"][4] % 2 = 1
SsdsBytes(m, b) == HasCond(m) /\ Len(b) >= 14 /\ b[14] % 2 = 1

\* the rows active under a condition tile 0 .. DeclLen-1: every offset is
\* covered by exactly one row
Tiles(m, ssds) ==
  \A o \in 0 .. (DeclLen(m, ssds) - 1) :
     Cardinality({r \in Rows(m) : ActiveRow(r, ssds) /\ r.off <= o /\ o < r.off + r.w}) = 1
NoSpill(m, ssds) == \A r \in Rows(m) : ActiveRow(r, ssds) => r.off + r.w <= DeclLen(m, ssds)
LayoutsWellFormed ==
  \A m \in Msgs : \A ssds \in Conds(m) : Tiles(m, ssds) /\ NoSpill(m, ssds)

\* a value of message type m: field name -> big-endian byte string of the row's width
IsVals(m, vals) == DOMAIN vals = FieldNames(m) /\ \A f \in FieldNames(m) : Len(vals[f]) = RowOf(m, f).w
\* fields that are not on the wire under the value's own flag are zero
\* (DecodeResponseTLV clears ServerStateDS when the flag is not set)
Canonical(m, vals) == \A r \in DataRows(m) : ~ActiveRow(r, Ssds(m, vals)) => vals[r.f] = Zeros(r.w)

CoverT == [m \in Msgs |-> [ssds \in BOOLEAN |-> [o \in 0 .. (DeclLen(m, ssds) - 1) |->
              CHOOSE r \in RowsT[m] : ActiveRow(r, ssds) /\ r.off <= o /\ o < r.off + r.w]]]
CoverRow(m, ssds, o) == CoverT[m][ssds][o]
EncodeLay(m, vals) ==
  LET s == Ssds(m, vals)
  IN [i \in 1 .. DeclLen(m, s) |->
        LET r == CoverRow(m, s, i - 1)
        IN IF r.ty = "pad" THEN 0 ELSE vals[r.f][i - r.off]]
\* Decode* of a buffer of at least the declared length
DecodeLay(m, b) ==
  LET s == SsdsBytes(m, b)
  IN [f \in FieldNames(m) |->
        LET r == RowOf(m, f)
        IN IF ActiveRow(r, s) THEN SubSeq(b, r.off + 1, r.off + r.w) ELSE Zeros(r.w)]
\* Decode*(dst, b) fills a caller supplied struct that may hold a previously decoded
\* value (core/client/client_csptp_ip.go decodes every datagram of its receive loop
\* into one Message / ResponseTLV variable).  Rows on the wire are assigned; rows
\* that are not on the wire under b's flag are cleared (the else-branch of
\* DecodeResponseTLV) -- clears = FALSE is a decoder that leaves them alone.
DecodeIntoGen(m, prev, b, clears) ==
  LET s == SsdsBytes(m, b)
  IN [f \in FieldNames(m) |->
        LET r == RowOf(m, f)
        IN IF ActiveRow(r, s) THEN SubSeq(b, r.off + 1, r.off + r.w)
           ELSE IF clears THEN Zeros(r.w) ELSE prev[f]]
DecodeLayInto(m, prev, b) == DecodeIntoGen(m, prev, b, TRUE)
\* sign of the decoded Go value
Neg(ty, bs) == ty = "i" /\ bs[1] >= 128

\* valid encodings: declared length for the flag they carry, padding zero
ValidEnc(m, b) ==
  /\ Len(b) = DeclLen(m, SsdsBytes(m, b))
  /\ \A r \in Rows(m) : (r.ty = "pad" /\ ActiveRow(r, SsdsBytes(m, b))) =>
        \A i \in (r.off + 1) .. (r.off + r.w) : b[i] = 0

\* --- NTP leap/version/mode accessors (Packet.LeapIndicator etc.)
Li(b) == (b \div 64) % 4
Vn(b) == (b \div 8) % 8
Mode(b) == b % 8
SetLi(b, l) == (b % 64) + l * 64
SetVn(b, v) == (b - Vn(b) * 8) + v * 8
SetMode(b, m) == (b - Mode(b)) + m
LvmArgs == [li |-> 0 .. 3, vn |-> 0 .. 7, mode |-> 0 .. 7]
LvmSet(op, b, a) == CASE op = "li" -> SetLi(b, a) [] op = "vn" -> SetVn(b, a) [] op = "mode" -> SetMode(b, a)

\* --- value classes for a w-byte field, as byte strings
VZero(w) == Zeros(w)
VMax(w) == Fill(w, 255)
VPow2(w, k) == [i \in 1 .. w |-> IF w - i = k \div 8 THEN 2 ^ (k % 8) ELSE 0]                   \* 2^k
VPow2m1(w, k) == [i \in 1 .. w |-> IF w - i < k \div 8 THEN 255
                                    ELSE IF w - i = k \div 8 THEN 2 ^ (k % 8) - 1 ELSE 0]     \* 2^k - 1
VPow2p1(w, k) == [i \in 1 .. w |-> VPow2(w, k)[i] + (IF i = w THEN 1 ELSE 0)]                  \* 2^k + 1, k >= 1
VSignMin(w) == VPow2(w, 8 * w - 1)
VSignMax(w) == VPow2m1(w, 8 * w - 1)
ValueClasses(w) ==
  {VZero(w), VMax(w), VSignMin(w), VSignMax(w)}
    \cup {VPow2(w, k) : k \in 0 .. (8 * w - 1)}
    \cup {VPow2m1(w, k) : k \in 1 .. (8 * w - 1)}
    \cup {VPow2p1(w, k) : k \in 1 .. (8 * w - 1)}

(***************************************************************************)
(* 2. NTS extension fields (net/nts/nts.go)                                *)
(*    Offsets are relative to the end of the 48-byte NTP header (48 is a   *)
(*    multiple of 4, so alignment is unaffected).                          *)
(*    packet p: uid  byte string, ck  sequence of cookies, ph  sequence of *)
(*    placeholder bodies, pt  cookies carried encrypted in the             *)
(*    authenticator (NewResponsePacket).                                   *)
(***************************************************************************)
NtpHdrLen == 48
MaxPacketLen == 1280
ExtUniqueIdentifier == 260     \* 0x104
ExtCookie == 516               \* 0x204
ExtCookiePlaceholder == 772    \* 0x304
ExtAuthenticator == 1028       \* 0x404

\* UniqueIdentifier.pack / Cookie.pack / CookiePlaceholder.pack
ExtField(type, body) ==
  U16(type) \o U16(4 + Pad4(Len(body))) \o body \o Zeros(Pad4(Len(body)) - Len(body))
PlaceholderType == IF PlaceholderTypedAsCookie THEN ExtCookie ELSE ExtCookiePlaceholder

\* AEAD abstracted as a tagged wrapper: Seal prepends 16 tag bytes, Open
\* checks them.  Nonce: 16 bytes from crypto/rand.
SealTag == Fill(16, 83)
ModelNonce == Fill(16, 78)
Seal(pt) == SealTag \o pt
Open(ct) == IF Len(ct) >= 16 /\ SubSeq(ct, 1, 16) = SealTag
            THEN [ok |-> TRUE, pt |-> SubSeq(ct, 17, Len(ct))]
            ELSE [ok |-> FALSE, pt |-> << >>]

\* Authenticator.pack
AuthField(pt) ==
  LET ct == Seal(pt)
      nl == 16
  IN U16(ExtAuthenticator)
       \o U16(4 + 2 + 2 + nl + PadLen(nl) + Len(ct) + PadLen(Len(ct)))
       \o U16(nl) \o U16(Len(ct))
       \o ModelNonce \o Zeros(PadLen(nl)) \o ct \o Zeros(PadLen(Len(ct)))

\* NewResponsePacket: the cookies are packed as cookie extension fields into PlainText
PtBytes(p) == Flat([i \in DOMAIN p.pt |-> ExtField(ExtCookie, p.pt[i])])

\* EncodePacket: unique id, cookies, placeholders, authenticator
EncodeNts(p) ==
  ExtField(ExtUniqueIdentifier, p.uid)
    \o Flat([i \in DOMAIN p.ck |-> ExtField(ExtCookie, p.ck[i])])
    \o Flat([i \in DOMAIN p.ph |-> ExtField(PlaceholderType, p.ph[i])])
    \o AuthField(PtBytes(p))
\* EncodePacket slices a MaxPacketLen buffer
FitsPacket(p) == NtpHdrLen + Len(EncodeNts(p)) <= MaxPacketLen

DecInit == [err |-> "nil", fu |-> FALSE, fa |-> FALSE, uid |-> << >>, ck |-> << >>, ph |-> << >>,
            nonce |-> << >>, ct |-> << >>, apos |-> 0]
\* DecodePacket: the loop over extension fields
RECURSIVE DecLoop(_, _, _)
DecLoop(b, pos, a) ==
  IF ~(Len(b) - pos >= 28 /\ ~a.fa) THEN a
  ELSE
    LET ty == U16At(b, pos)
        ln == U16At(b, pos + 2)
        bp == pos + 4
        vl == (ln - 4) % 65536                  \* eh.Length - 4 on uint16
        a1 == CASE ty = ExtUniqueIdentifier -> [a EXCEPT !.uid = Take(b, bp, vl), !.fu = TRUE]
                [] ty = ExtAuthenticator ->
                     LET nl == U16At(b, bp)
                         cl == U16At(b, bp + 2)
                         n == Min2(nl, Len(b) - (bp + 4))       \* n := copy(nonce, buf[pos:]); pos += n
                     IN [a EXCEPT !.nonce = Take(b, bp + 4, nl), !.ct = Take(b, bp + 4 + n, cl),
                                  !.fa = TRUE, !.apos = pos]
                [] ty = ExtCookie -> [a EXCEPT !.ck = Append(@, Take(b, bp, vl))]
                [] ty = ExtCookiePlaceholder -> [a EXCEPT !.ph = Append(@, vl)]   \* body ignored; extHdr kept
                [] OTHER -> a
    IN IF ln = 0 THEN [a EXCEPT !.err = "diverges"]   \* pos does not advance (outside valid encodings)
       ELSE DecLoop(b, pos + ln, a1)
DecodeNts(b) ==
  LET a == DecLoop(b, 0, DecInit)
  IN [a EXCEPT !.err = IF a.err # "nil" THEN a.err
                       ELSE IF ~a.fu THEN "nouid" ELSE IF ~a.fa THEN "noauth" ELSE "nil"]

\* Packet.authenticate (ProcessRequest): open the ciphertext, collect the cookie fields in it
RECURSIVE PtLoop(_, _, _)
PtLoop(b, pos, cks) ==
  IF ~(Len(b) - pos >= 28) THEN cks
  ELSE LET ty == U16At(b, pos)
           ln == U16At(b, pos + 2)
       IN IF ln = 0 THEN cks
          ELSE PtLoop(b, pos + ln, IF ty = ExtCookie THEN Append(cks, Take(b, pos + 4, (ln - 4) % 65536)) ELSE cks)
Authenticate(d) ==
  LET o == Open(d.ct)
  IN [ok |-> o.ok, ck |-> IF o.ok THEN PtLoop(o.pt, 0, << >>) ELSE << >>]

\* walking the encoded fields by their length headers: every field is a
\* multiple of 4 long and the fields end exactly at the end of the packet
RECURSIVE WalkAligned(_, _)
WalkAligned(b, pos) ==
  IF pos = Len(b) THEN TRUE
  ELSE IF pos + 4 > Len(b) THEN FALSE
  ELSE LET ln == U16At(b, pos + 2)
       IN ln >= 4 /\ ln % 4 = 0 /\ pos + ln <= Len(b) /\ WalkAligned(b, pos + ln)

(***************************************************************************)
(* 3. Server cookies (net/ntske/cookies.go): three TLVs                    *)
(***************************************************************************)
CookieTypeAlgorithm == 257   \* 0x101
CookieTypeKeyS2C == 513      \* 0x201
CookieTypeKeyC2S == 769      \* 0x301
CookieTypeKeyID == 1025      \* 0x401
CookieTypeNonce == 1281      \* 0x501
CookieTypeCiphertext == 1537 \* 0x601

Tlv(t, v) == U16(t) \o U16(Len(v)) \o v
\* ServerCookie.Encode / EncryptedServerCookie.Encode: 16-bit value, then two byte strings
Tlv3Encode(ts, n, x, y) == Tlv(ts[1], U16(n)) \o Tlv(ts[2], x) \o Tlv(ts[3], y)
Tlv3Init == [err |-> "nil", n |-> 0, x |-> << >>, y |-> << >>, f1 |-> FALSE, f2 |-> FALSE, f3 |-> FALSE]
RECURSIVE Tlv3Loop(_, _, _, _)
Tlv3Loop(ts, b, pos, a) ==
  IF ~(pos < Len(b)) THEN
     IF pos # Len(b) \/ ~(a.f1 /\ a.f2 /\ a.f3) THEN [a EXCEPT !.err = "unexpected"] ELSE a
  ELSE IF pos + 4 > Len(b) THEN [a EXCEPT !.err = "panic"]
  ELSE
    LET t == U16At(b, pos)
        ln == U16At(b, pos + 2)
    IN IF t = ts[1] THEN
          IF pos + 6 > Len(b) THEN [a EXCEPT !.err = "panic"]
          ELSE Tlv3Loop(ts, b, pos + 4 + ln, [a EXCEPT !.n = U16At(b, pos + 4), !.f1 = TRUE])
       ELSE IF t = ts[2] THEN
          IF pos + 4 + ln > Len(b) THEN [a EXCEPT !.err = "panic"]
          ELSE Tlv3Loop(ts, b, pos + 4 + ln, [a EXCEPT !.x = SubSeq(b, pos + 5, pos + 4 + ln), !.f2 = TRUE])
       ELSE IF t = ts[3] THEN
          IF pos + 4 + ln > Len(b) THEN [a EXCEPT !.err = "panic"]
          ELSE Tlv3Loop(ts, b, pos + 4 + ln, [a EXCEPT !.y = SubSeq(b, pos + 5, pos + 4 + ln), !.f3 = TRUE])
       ELSE Tlv3Loop(ts, b, pos + 4 + ln, a)
Tlv3Decode(ts, b) == LET a == Tlv3Loop(ts, b, 0, Tlv3Init) IN [err |-> a.err, n |-> a.n, x |-> a.x, y |-> a.y]

SckTypes == <<CookieTypeAlgorithm, CookieTypeKeyS2C, CookieTypeKeyC2S>>
EckTypes == <<CookieTypeKeyID, CookieTypeNonce, CookieTypeCiphertext>>
\* c = [n, x, y]: ServerCookie (Algo, S2C, C2S) or EncryptedServerCookie (ID, Nonce, Ciphertext)
SckEncode(c) == Tlv3Encode(SckTypes, c.n, c.x, c.y)
SckDecode(b) == Tlv3Decode(SckTypes, b)
EckEncode(c) == Tlv3Encode(EckTypes, c.n, c.x, c.y)
EckDecode(b) == Tlv3Decode(EckTypes, b)
\* EncryptWithNonce / Decrypt
Encrypt(c, keyid) == [n |-> keyid % 65536, x |-> ModelNonce, y |-> Seal(SckEncode(c))]
Decrypt(e) == LET o == Open(e.y)
              IN IF ~o.ok THEN [err |-> "open", n |-> 0, x |-> << >>, y |-> << >>] ELSE SckDecode(o.pt)

(***************************************************************************)
(* 4. NTS-KE records (net/ntske/ntske.go, the pack methods)                *)
(*    abstract record [t, crit, n, body]:                                  *)
(*      np  next protocol n        ae  AEAD algorithms body (16-bit each)  *)
(*      ck  cookie body            sv  server address body, crit           *)
(*      pt  port n, crit           er  error code n     wn  warning code n *)
(*      unk record of unknown type n with body, crit    eom end of message *)
(***************************************************************************)
RecEom == 0
RecNextproto == 1
RecError == 2
RecWarning == 3
RecAead == 4
RecCookie == 5
RecServer == 6
RecPort == 7
KeRec(t, crit, n, body) == [t |-> t, crit |-> crit, n |-> n, body |-> body]
KeEom == KeRec("eom", TRUE, 0, << >>)
KeType(r) == CASE r.t = "eom" -> RecEom [] r.t = "np" -> RecNextproto [] r.t = "er" -> RecError
               [] r.t = "wn" -> RecWarning [] r.t = "ae" -> RecAead [] r.t = "ck" -> RecCookie
               [] r.t = "sv" -> RecServer [] r.t = "pt" -> RecPort [] r.t = "unk" -> r.n
\* critical bit as the pack methods set it
KeCrit(r) == CASE r.t \in {"eom", "np", "er", "wn", "ae"} -> TRUE [] r.t = "ck" -> FALSE [] OTHER -> r.crit
KeBody(r) == CASE r.t \in {"np", "pt", "er", "wn"} -> U16(r.n)
               [] r.t = "ae" -> Flat([i \in DOMAIN r.body |-> U16(r.body[i])])
               [] r.t = "eom" -> << >>
               [] OTHER -> r.body
KeRecBytes(r) == U16(KeType(r) + (IF KeCrit(r) THEN 32768 ELSE 0)) \o U16(Len(KeBody(r))) \o KeBody(r)
\* ExchangeMsg.Pack
KeStream(rs) == Flat([i \in DOMAIN rs |-> KeRecBytes(rs[i])])

KeData0 == [algo |-> 0, cookies |-> << >>, server |-> << >>, port |-> 0]
KeErrOfCode(c) == CASE c = 0 -> "unrec_critical" [] c = 1 -> "bad_request" [] c = 2 -> "internal_server" [] OTHER -> "unknown_error"
\* what a record sequence means (ntske.Data), independently of bytes
RECURSIVE KeExpect(_, _)
KeExpect(rs, d) ==
  IF rs = << >> THEN [data |-> d, err |-> "eof"]
  ELSE LET r == Head(rs)
       IN CASE r.t = "eom" -> [data |-> d, err |-> "nil"]
            [] r.t = "np" -> KeExpect(Tail(rs), d)
            [] r.t = "ae" -> KeExpect(Tail(rs), [d EXCEPT !.algo = r.body[1]])
            [] r.t = "ck" -> KeExpect(Tail(rs), [d EXCEPT !.cookies = Append(@, r.body)])
            [] r.t = "sv" -> KeExpect(Tail(rs), [d EXCEPT !.server = r.body])
            [] r.t = "pt" -> KeExpect(Tail(rs), [d EXCEPT !.port = r.n])
            [] r.t = "er" -> [data |-> d, err |-> KeErrOfCode(r.n)]
            [] r.t = "wn" -> [data |-> d, err |-> "critical"]
            [] r.t = "unk" -> IF r.crit THEN [data |-> d, err |-> "critical"] ELSE KeExpect(Tail(rs), d)
\* the claim is made for what the project emits: exactly one AEAD algorithm per record
KeClaimed(rs) == \A i \in DOMAIN rs : rs[i].t = "ae" => Len(rs[i].body) = 1

\* ReadData on a byte stream when every read request is served completely (the
\* result for the unsegmented stream; the reader itself is in NtsKeStream.tla).
\* io.ReadFull of n bytes at p: ok / eof / unexpected_eof
KeAvail(s, p, n) == IF p + n <= Len(s) THEN "nil" ELSE IF p = Len(s) THEN "eof" ELSE "unexpected_eof"
RECURSIVE KeRefLoop(_, _, _)
KeRefLoop(s, p, d) ==
  IF KeAvail(s, p, 4) # "nil" THEN [data |-> d, err |-> KeAvail(s, p, 4)]
  ELSE
    LET ty == U16At(s, p)
        bl == U16At(s, p + 2)
        t == ty % 32768
        cr == ty >= 32768
        q == p + 4
        n == IF t \in {RecNextproto, RecAead, RecPort, RecError} THEN 2 ELSE bl
        body == SubSeq(s, q + 1, q + n)
    IN IF t = RecEom THEN [data |-> d, err |-> "nil"]
       ELSE IF t \notin {RecNextproto, RecAead, RecCookie, RecServer, RecPort, RecError} /\ cr
            THEN [data |-> d, err |-> "critical"]
       ELSE IF KeAvail(s, q, n) # "nil" /\ n > 0 THEN [data |-> d, err |-> KeAvail(s, q, n)]
       ELSE IF t = RecError THEN [data |-> d, err |-> KeErrOfCode(U16At(body, 0))]
       ELSE KeRefLoop(s, q + n,
              CASE t = RecAead -> [d EXCEPT !.algo = U16At(body, 0)]
                [] t = RecCookie -> [d EXCEPT !.cookies = Append(@, body)]
                [] t = RecServer -> [d EXCEPT !.server = body]
                [] t = RecPort -> [d EXCEPT !.port = U16At(body, 0)]
                [] OTHER -> d)
KeRefDecode(s) == KeRefLoop(s, 0, KeData0)

(***************************************************************************)
(* 5. The codecs of the property behind one interface (used by histories   *)
(*    of calls, WireHist.tla): codec cd, protocol value val in the form of *)
(*    the sections above, an encoding enc, an observed decoded value d.    *)
(*      ntp csptp reqtlv resptlv   val: field -> bytes        enc: bytes   *)
(*      nts                        val: [uid, ck, ph, pt]     enc: bytes   *)
(*      sck eck                    val: [n, x, y]             enc: bytes   *)
(*      crypt  (EncryptWithNonce / Decrypt)  val: [n, x, y]   enc: the     *)
(*             EncryptedServerCookie [n, x, y] (key id = val.n)            *)
(*      ke     (ExchangeMsg.Pack / ReadData) val: records     enc: bytes   *)
(***************************************************************************)
HCodecsAll == Msgs \cup {"nts", "sck", "eck", "crypt", "ke"}
HEncode(cd, val) ==
  CASE cd \in Msgs -> EncodeLay(cd, val)
    [] cd = "nts" -> EncodeNts(val)
    [] cd = "sck" -> SckEncode(val)
    [] cd = "eck" -> EckEncode(val)
    [] cd = "crypt" -> Encrypt(val, val.n)
    [] cd = "ke" -> KeStream(val)
\* what a caller observes of a decoded value (nts: DecodePacket, then ProcessRequest)
NtsObs(b) ==
  LET d == DecodeNts(b)
      a == Authenticate(d)
  IN [err |-> d.err, uid |-> d.uid, ck |-> d.ck, ph |-> d.ph, auth_ok |-> a.ok, rec |-> a.ck]
HDecode(cd, enc) ==
  CASE cd \in Msgs -> DecodeLay(cd, enc)
    [] cd = "nts" -> NtsObs(enc)
    [] cd = "sck" -> SckDecode(enc)
    [] cd = "eck" -> EckDecode(enc)
    [] cd = "crypt" -> Decrypt(enc)
    [] cd = "ke" -> KeRefDecode(enc)

(***************************************************************************)
(* Property section (C14)                                                  *)
(***************************************************************************)
\* (a) fixed layouts: decode after encode is the identity; the encoding has
\*     the declared length; re-encoding a decoded valid encoding gives its bytes
LayRoundTrip(m, vals) ==
  LET e == EncodeLay(m, vals)
      d == DecodeLay(m, e)
  IN Canonical(m, vals) => Len(e) = DeclLen(m, Ssds(m, vals)) /\ d = vals /\ EncodeLay(m, d) = e
LayReencode(m, b) == ValidEnc(m, b) => EncodeLay(m, DecodeLay(m, b)) = b
\*     the decoded value is a function of the bytes only: whatever the destination
\*     held before (prev), decoding returns the value that was encoded
DecodeOverwrites(m, prev, b) == ValidEnc(m, b) => DecodeLayInto(m, prev, b) = DecodeLay(m, b)
RoundTripInto(m, prev, vals) == Canonical(m, vals) => DecodeLayInto(m, prev, EncodeLay(m, vals)) = vals
\* (b) leap/version/mode accessors agree with (partition) the first byte
LvmAgree(b) == Li(b) * 64 + Vn(b) * 8 + Mode(b) = b
LvmSetGet(b) ==
  /\ \A a \in 0 .. 3 : Li(SetLi(b, a)) = a /\ Vn(SetLi(b, a)) = Vn(b) /\ Mode(SetLi(b, a)) = Mode(b)
  /\ \A a \in 0 .. 7 : Vn(SetVn(b, a)) = a /\ Li(SetVn(b, a)) = Li(b) /\ Mode(SetVn(b, a)) = Mode(b)
  /\ \A a \in 0 .. 7 : Mode(SetMode(b, a)) = a /\ Li(SetMode(b, a)) = Li(b) /\ Vn(SetMode(b, a)) = Vn(b)
\* (c) NTS extension fields: every field decodes as the kind that was encoded,
\*     the fields are 4-byte aligned, values survive (claimed for lengths that
\*     are multiples of 4 -- what the project emits; cookies carried in the
\*     authenticator: claimed for extension fields of >= 28 bytes)
NtsKindsOK(p, d) == d.err = "nil" /\ Len(d.ck) = Len(p.ck) /\ Len(d.ph) = Len(p.ph)
NtsEmitted(p) == Len(p.uid) % 4 = 0 /\ (\A i \in DOMAIN p.ck : Len(p.ck[i]) % 4 = 0)
                 /\ (\A i \in DOMAIN p.ph : Len(p.ph[i]) % 4 = 0)
NtsValuesOK(p, d) == NtsEmitted(p) => d.uid = p.uid /\ d.ck = p.ck /\ d.ph = Lens(p.ph)
NtsPtEmitted(p) == \A i \in DOMAIN p.pt : Len(p.pt[i]) % 4 = 0 /\ Len(p.pt[i]) >= 24
NtsAuthOK(p, d) == LET r == Authenticate(d) IN r.ok /\ (NtsPtEmitted(p) => r.ck = p.pt)
NtsRoundTrip(p) ==
  LET b == EncodeNts(p)
      d == DecodeNts(b)
  IN NtsKindsOK(p, d) /\ NtsValuesOK(p, d) /\ NtsAuthOK(p, d) /\ WalkAligned(b, 0)
\* (d) server cookies
SckRoundTrip(c) == SckDecode(SckEncode(c)) = [err |-> "nil", n |-> c.n, x |-> c.x, y |-> c.y]
EckRoundTrip(c) == EckDecode(EckEncode(c)) = [err |-> "nil", n |-> c.n, x |-> c.x, y |-> c.y]
CryptRoundTrip(c, keyid) ==
  LET e == Encrypt(c, keyid)
      e2 == EckDecode(EckEncode(e))
  IN /\ e2 = [err |-> "nil", n |-> e.n, x |-> e.x, y |-> e.y]
     /\ Decrypt([n |-> e2.n, x |-> e2.x, y |-> e2.y]) = [err |-> "nil", n |-> c.n, x |-> c.x, y |-> c.y]
\* (e) NTS-KE records: see NtsKeStream.tla (KeRoundTrip, SegmentationIndependent)
\* (f) "for every protocol value" holds for the values of a whole history of calls
\*     made in one process, not only for a call on its own: the results of earlier
\*     calls stay valid while the codecs are called again.  d is the observed decoded
\*     value (HDecode), val the value that was encoded (claims as in (a)-(e)).
HValueIs(cd, val, d) ==
  CASE cd \in Msgs -> (Canonical(cd, val) => d = val)
    [] cd = "nts" -> /\ NtsKindsOK(val, d) /\ NtsValuesOK(val, d)
                     /\ d.auth_ok /\ (NtsPtEmitted(val) => d.rec = val.pt)
    [] cd \in {"sck", "eck", "crypt"} -> d.err = "nil" /\ d.n = val.n /\ d.x = val.x /\ d.y = val.y
    [] cd = "ke" -> (KeClaimed(val) => LET e == KeExpect(val, KeData0) IN d.data = e.data /\ d.err = e.err)
HEncodingIs(cd, val, enc) ==
  /\ HValueIs(cd, val, HDecode(cd, enc))
  /\ (cd \in Msgs /\ Canonical(cd, val)) =>
        Len(enc) = DeclLen(cd, Ssds(cd, val)) /\ EncodeLay(cd, DecodeLay(cd, enc)) = enc
  /\ cd = "nts" => WalkAligned(enc, 0)
\*     a history h: h[i] = [op, cd, val, ret, end] -- call i encoded ("enc") or decoded
\*     ("dec") the value val with codec cd; ret is its result as it was when the call
\*     returned, end the same result as the caller finds it at the end of the history
HistRoundTrip(h) ==
  \A i \in DOMAIN h : IF h[i].op = "enc" THEN HEncodingIs(h[i].cd, h[i].val, h[i].end)
                                          ELSE HValueIs(h[i].cd, h[i].val, h[i].end)
ResultsStable(h) == \A i \in DOMAIN h : h[i].end = h[i].ret

(***************************************************************************)
(* Model: one case per behaviour (all codecs are pure functions).          *)
(*   lay   one field of one message type takes a list of values (value     *)
(*         classes, or a sweep of the last byte), the other fields a base  *)
(*         pattern                                                         *)
(*   layb  a valid encoding written down as bytes                          *)
(*   layp  a value decoded into a destination that holds a previously      *)
(*         decoded value (pairs of value classes)                          *)
(*   lvm   one first byte                                                  *)
(*   nts   a packet shape (lengths; contents are filled deterministically;  *)
(*         placeholder bodies by class: zero / first / last / rand)        *)
(*   sck / eck / crypt   cookie shapes                                     *)
(***************************************************************************)
CONSTANTS SweepPrefixes2,   \* high bytes for which a 2-byte field is swept over all 256 low bytes
          SweepBases,       \* base patterns under which sweeps are made
          SweepWide,        \* also sweep the last byte of fields wider than 2 bytes
          NtsUidLens, NtsCkLens, NtsMaxCk, NtsPhLens, NtsMaxPh, NtsPtShapes,
          SckLens, SckNs
VARIABLE c

\* --- lay cases
Bases == {"zero", "ones"}
BaseByte(base) == IF base = "zero" THEN 0 ELSE 255
\* value lists: classes, and sweeps given by a prefix (all 256 last bytes)
SweepPrefixes(w) == IF w = 1 THEN {<< >>}
                    ELSE IF w = 2 THEN {<<h>> : h \in SweepPrefixes2}
                    ELSE IF SweepWide THEN {Zeros(w - 1), Fill(w - 1, 255)} ELSE {}
SweepValues(pre) == {pre \o <<x>> : x \in Byte}
\* vals of a case: field f := v, FlagField bit 0 := ssds (unless f is FlagField), others base
ForceFlag(bs, ssds) == [bs EXCEPT ![4] = (bs[4] - (bs[4] % 2)) + (IF ssds THEN 1 ELSE 0)]
Canon(m, vals) == [f \in DOMAIN vals |-> IF ActiveRow(RowOf(m, f), Ssds(m, vals)) THEN vals[f]
                                          ELSE Zeros(RowOf(m, f).w)]
CaseVals(m, ssds, base, f, v) ==
  LET raw == [g \in FieldNames(m) |->
                 IF g = f THEN v
                 ELSE IF HasCond(m) /\ g = "FlagField" THEN ForceFlag(Fill(4, BaseByte(base)), ssds)
                 ELSE Fill(RowOf(m, g).w, BaseByte(base))]
  IN Canon(m, raw)
\* groups (second fan-out level): (message, condition, base, field) x 16 slices of the sweep prefixes
AllDataRows == UNION {DataRows(mm) : mm \in Msgs}
LayGroups0 ==
  {g \in {[m |-> m, ssds |-> ssds, base |-> base, f |-> r.f, w |-> r.w] :
             m \in Msgs, ssds \in BOOLEAN, base \in Bases, r \in AllDataRows} :
     /\ g.f \in FieldNames(g.m) /\ RowOf(g.m, g.f).w = g.w /\ g.ssds \in Conds(g.m)
     /\ ActiveRow(RowOf(g.m, g.f), g.ssds)}
SweepSlices == {h \div 16 : h \in SweepPrefixes2}
LayGroups ==
  {x \in {[k |-> "grp", fam |-> "lay", m |-> g.m, ssds |-> g.ssds, base |-> g.base, f |-> g.f, w |-> g.w, sub |-> sub] :
             g \in LayGroups0, sub \in {0} \cup SweepSlices} :
     x.sub > 0 => x.w = 2 /\ x.base \in SweepBases /\ ((RowOf(x.m, x.f).cond = "ssds") = x.ssds)}
\* sweeps: under the bases of the tier; a row that is always on the wire is swept in the short layout only
SweepHere(g) == g.base \in SweepBases /\ ((RowOf(g.m, g.f).cond = "ssds") = g.ssds)
InSlice(pre, w, sub) == IF w = 2 THEN pre[1] \div 16 = sub ELSE sub = 0
LayCasesOf(g) ==
  (IF g.sub = 0
   THEN {[k |-> "lay", m |-> g.m, ssds |-> g.ssds, base |-> g.base, f |-> g.f, w |-> g.w, mode |-> "classes", pre |-> << >>]}
   ELSE {})
    \cup {[k |-> "lay", m |-> g.m, ssds |-> g.ssds, base |-> g.base, f |-> g.f, w |-> g.w, mode |-> "sweep", pre |-> pre] :
            pre \in {q \in (IF SweepHere(g) THEN SweepPrefixes(g.w) ELSE {}) : InSlice(q, g.w, g.sub)}}
\* a valid encoding written down directly: base bytes, the field's bytes := v,
\* flag bit := ssds (unless the field is FlagField), padding zero
CaseBytes(m, ssds, base, f, v) ==
  LET r == RowOf(m, f)
      b0 == [i \in 1 .. 54 |-> IF r.off < i /\ i <= r.off + r.w THEN v[i - r.off]
                               ELSE IF HasCond(m) /\ i = 14 THEN (BaseByte(base) - (BaseByte(base) % 2)) + (IF ssds THEN 1 ELSE 0)
                               ELSE BaseByte(base)]
      s == SsdsBytes(m, b0)
  IN [i \in 1 .. DeclLen(m, s) |-> IF CoverRow(m, s, i - 1).ty = "pad" THEN 0 ELSE b0[i]]
LayValues(x) == IF x.mode = "classes" THEN ValueClasses(x.w) ELSE SweepValues(x.pre)

\* --- nts cases (lengths only)
SeqsUpTo(S, n) == UNION {[1 .. k -> S] : k \in 0 .. n}
NtsGroups == {[k |-> "grp", fam |-> "nts", uid |-> u, ck |-> cs] : u \in NtsUidLens, cs \in SeqsUpTo(NtsCkLens, NtsMaxCk)}
\* encoded length of a shape (for the MaxPacketLen guard of EncodePacket)
RECURSIVE SumPad(_)
SumPad(ls) == IF ls = << >> THEN 0 ELSE 4 + Pad4(Head(ls)) + SumPad(Tail(ls))
NtsShapeLen(x) == 4 + Pad4(x.uid) + SumPad(x.ck) + SumPad(x.ph) + 8 + 16 + Pad4(16 + SumPad(x.pt))
NtsFits(x) == NtpHdrLen + NtsShapeLen(x) <= MaxPacketLen
\* Contents of a body the decoder may ignore.  CookiePlaceholder.pack copies the caller's bytes to
\* the wire unchanged and the receiver "will ignore" them (they merely "should be 0"), so every body
\* is a value the encoder can emit: the placeholder clause is quantified over the body contents too.
\* (EncodePacket emits no other field with an ignored body: padding is written by the pack methods
\* themselves, always zero, and fields of unknown type cannot be encoded.)
\* Body classes per placeholder: all zero, a single non-zero byte first / last, every byte non-zero.
\* phb[i] is the class of placeholder i.  Assignments for n placeholders: all zero; one placeholder j
\* of a non-zero class, the others zero (every j, every class); all of them "rand".
NtsPhClasses == {"zero", "first", "last", "rand"}
PhAllOf(n, cl) == [i \in 1 .. n |-> cl]
PhAssign(n) ==
  {PhAllOf(n, "zero")}
    \cup {[i \in 1 .. n |-> IF i = j THEN cl ELSE "zero"] : j \in 1 .. n, cl \in NtsPhClasses \ {"zero"}}
    \cup (IF n >= 1 THEN {PhAllOf(n, "rand")} ELSE {})
\* real-sized requests (NewRequestPacket, bodies overwritten by the caller): the last placeholder
PhAssignApi(n) ==
  {PhAllOf(n, "zero")}
    \cup {[i \in 1 .. n |-> IF i = n THEN cl ELSE "zero"] : cl \in (IF n >= 1 THEN NtsPhClasses \ {"zero"} ELSE {})}
    \cup (IF n >= 2 THEN {PhAllOf(n, "rand")} ELSE {})
PhNonZero(bs) == \E i \in DOMAIN bs : bs[i] # "zero"
NtsPhShapes == UNION {{[i \in 1 .. n |-> l] : n \in 0 .. NtsMaxPh} : l \in NtsPhLens}
\* (non-zero bodies are generated for packets without encrypted cookies: placeholders are sent in
\* requests, NewResponsePacket never carries one)
NtsCasesOf(g) ==
  {x \in UNION {{[k |-> "nts", uid |-> g.uid, ck |-> g.ck, ph |-> ps, phb |-> bs, pt |-> ts] :
                    bs \in PhAssign(Len(ps)), ts \in NtsPtShapes} : ps \in NtsPhShapes} :
     NtsFits(x) /\ (PhNonZero(x.phb) => x.pt = << >>)}
\* NewRequestPacket for ntske.Data with n cookies of length cl: one cookie, 8-n placeholders
\* NewResponsePacket with n cookies of length cl (it keeps only as many cookies as fit MaxPacketLen:
\* (1280 - 48 - 36 - 40) \div 128 = 9 for 124-byte cookies, so all n <= 8 are kept)
NtsApiShape(x) == IF x.api = "req"
                  THEN [uid |-> 32, ck |-> <<x.cl>>, ph |-> [i \in 1 .. (8 - x.n) |-> x.cl], phb |-> x.phb, pt |-> << >>]
                  ELSE [uid |-> 32, ck |-> << >>, ph |-> << >>, phb |-> << >>, pt |-> [i \in 1 .. x.n |-> x.cl]]
NtsApiCases == {x \in UNION {{[k |-> "ntsapi", api |-> a, n |-> n, cl |-> 124, phb |-> bs] :
                                  bs \in (IF a = "req" THEN PhAssignApi(8 - n) ELSE {<< >>})} :
                               a \in {"req", "resp"}, n \in 1 .. 8} :
                  NtsFits(NtsApiShape(x))}
\* deterministic contents
Content(n, tag) == [i \in 1 .. n |-> ((tag * 37 + i * 11) % 251) + 1]
PhBody(n, cl, tag) == CASE cl = "zero" -> Zeros(n)
                        [] cl = "first" -> [i \in 1 .. n |-> IF i = 1 THEN 255 ELSE 0]
                        [] cl = "last" -> [i \in 1 .. n |-> IF i = n THEN 1 ELSE 0]
                        [] cl = "rand" -> Content(n, tag)          \* every byte in 1 .. 251
NtsPacket(x) == [uid |-> Content(x.uid, 1),
                 ck |-> [i \in DOMAIN x.ck |-> Content(x.ck[i], 10 + i)],
                 ph |-> [i \in DOMAIN x.ph |-> PhBody(x.ph[i], x.phb[i], 30 + i)],
                 pt |-> [i \in DOMAIN x.pt |-> Content(x.pt[i], 20 + i)]]
NtsShapeOf(x) == IF x.k = "ntsapi" THEN NtsApiShape(x) ELSE x

\* --- cookie cases
SckGroups == {[k |-> "grp", fam |-> "sck", kk |-> kk, n |-> n] : kk \in {"sck", "eck", "crypt"}, n \in SckNs}
SckCasesOf(g) == {[k |-> g.kk, n |-> g.n, x |-> lx, y |-> ly] : lx \in SckLens, ly \in SckLens}
SckOf(x) == [n |-> x.n, x |-> Content(x.x, 3), y |-> Content(x.y, 4)]

\* --- layb cases: valid encodings written down as bytes (data bytes := pattern, padding zero)
LaybCases == {x \in {[k |-> "layb", m |-> m, ssds |-> ssds] : m \in Msgs, ssds \in BOOLEAN} : x.ssds \in Conds(x.m)}
DataMask(m, ssds) == [i \in 1 .. DeclLen(m, ssds) |-> IF CoverRow(m, ssds, i - 1).ty = "pad" THEN 0 ELSE 1]
FlagPos(m) == IF HasCond(m) THEN 14 ELSE 0      \* 1-based index of the byte holding TLVFlagServerStateDS
PatternBytes(m, ssds, v) ==
  [i \in 1 .. DeclLen(m, ssds) |->
      IF DataMask(m, ssds)[i] = 0 THEN 0
      ELSE IF i = FlagPos(m) THEN (v - (v % 2)) + (IF ssds THEN 1 ELSE 0) ELSE v]

\* --- layp cases: (previous value class, value class) pairs -- the destination of the
\* decoder holds a previously decoded value of class (pssds, pbase)
LaypCases == {x \in {[k |-> "layp", m |-> m, pssds |-> ps, pbase |-> pb, ssds |-> ssds, base |-> base] :
                        m \in Msgs, ps \in BOOLEAN, pb \in Bases, ssds \in BOOLEAN, base \in Bases} :
                x.ssds \in Conds(x.m) /\ x.pssds \in Conds(x.m)}
\* all fields the base pattern, flag as given
PatternVals(m, ssds, base) == CaseVals(m, ssds, base, "none", << >>)

LvmGroups == {[k |-> "grp", fam |-> "lvm", hi |-> h] : h \in 0 .. 15}
LvmCasesOf(g) == {[k |-> "lvm", x |-> g.hi * 16 + lo] : lo \in 0 .. 15}

Groups == LayGroups \cup {[k |-> "grp", fam |-> "layb"], [k |-> "grp", fam |-> "layp"]} \cup NtsGroups \cup {[k |-> "grp", fam |-> "ntsapi"]} \cup SckGroups \cup LvmGroups
CasesOf(g) == CASE g.fam = "lay" -> LayCasesOf(g) [] g.fam = "layb" -> LaybCases [] g.fam = "layp" -> LaypCases [] g.fam = "nts" -> NtsCasesOf(g)
                [] g.fam = "ntsapi" -> NtsApiCases [] g.fam = "sck" -> SckCasesOf(g) [] g.fam = "lvm" -> LvmCasesOf(g)

\* two fan-out steps (init -> group -> case) so that TLC's workers share the cases
Init == c = [k |-> "init"]
Next == \/ c.k = "init" /\ c' \in Groups
        \/ c.k = "grp" /\ c' \in CasesOf(c)
Spec == Init /\ [][Next]_c

\* --- the property section evaluated on the case
PLayout == LayoutsWellFormed
PLay == c.k = "lay" =>
   LET flag == HasCond(c.m) /\ c.f = "FlagField"
       b0 == CaseVals(c.m, c.ssds, c.base, c.f, Zeros(c.w))
       ValsFor(v) == IF flag THEN CaseVals(c.m, c.ssds, c.base, c.f, v) ELSE [b0 EXCEPT ![c.f] = v]
   IN /\ IsVals(c.m, b0)
      /\ \A v \in LayValues(c) : LayRoundTrip(c.m, ValsFor(v))
      \* the other direction (decode + encode of bytes written down directly); for sweeps see also PLayb
      /\ c.mode = "classes" => \A v \in LayValues(c) : LayReencode(c.m, CaseBytes(c.m, c.ssds, c.base, c.f, v))
PLayb == c.k = "layb" =>
   \A v \in {0, 1, 85, 170, 254, 255} :
      LET b == PatternBytes(c.m, c.ssds, v)
      IN ValidEnc(c.m, b) /\ LayReencode(c.m, b) /\ DecodeLay(c.m, EncodeLay(c.m, DecodeLay(c.m, b))) = DecodeLay(c.m, b)
PLayp == c.k = "layp" =>
   LET prev == PatternVals(c.m, c.pssds, c.pbase)
       vals == PatternVals(c.m, c.ssds, c.base)
   IN Canonical(c.m, prev) /\ Canonical(c.m, vals)
      /\ RoundTripInto(c.m, prev, vals) /\ DecodeOverwrites(c.m, prev, EncodeLay(c.m, vals))
\* self-test of PLayp: a decoder that does not clear what is not on the wire is rejected
LaypHasTeeth ==
   \E x \in LaypCases :
      LET prev == PatternVals(x.m, x.pssds, x.pbase)
          vals == PatternVals(x.m, x.ssds, x.base)
      IN DecodeIntoGen(x.m, prev, EncodeLay(x.m, vals), FALSE) # vals
PLvm == c.k = "lvm" => LvmAgree(c.x) /\ LvmSetGet(c.x)
PNts == c.k \in {"nts", "ntsapi"} => NtsRoundTrip(NtsPacket(NtsShapeOf(c)))
PSck == /\ c.k = "sck" => SckRoundTrip(SckOf(c))
        /\ c.k = "eck" => EckRoundTrip(SckOf(c))
        /\ c.k = "crypt" => CryptRoundTrip(SckOf(c), c.n)
=============================================================================
