SPECIFICATION TSpec
CONSTANTS
  PlaceholderTypedAsCookie = FALSE
  CapReply = FALSE
PROPERTIES TStrictProp
POSTCONDITION Consumed
