SPECIFICATION SpecGen
CONSTANTS
  MaxClocks = 3
  Rounds = 3
  DVals = {1, 2, 3, 5, 90, 7200, 259200, 3000000}
  Overlap = TRUE
  Hist = TRUE
  Fault = "none"
INVARIANTS EmitHist TypeOK OutcomeIsOfForm ByDeadline ExactlyOncePrefix InTimeCounted NoStuckLeak SecondCallRefused CounterRestored
