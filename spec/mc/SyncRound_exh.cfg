SPECIFICATION Spec
CONSTANTS
  W = 8
  NRef = 3
  NPeer = 2
  Vals <- ValsExh
  Cfgs <- CfgsExh
  MaxRound = 2
  FailKinds <- OneFail
  AnyOrder = FALSE
  Canon = TRUE
  Elapse <- ElapseAll
VIEW View
INVARIANTS TypeOK Bound RefPart PeerPart WithinCutoffContributesNothing SoleContribution MidpointWhenBoth OneAdjust Refused StatedImpliesPanics RefusedExact

PROPERTIES OneAdjustPerRound
