SPECIFICATION MonSpec
INVARIANTS KeyValidAtRequest KeyForRequest ReuseWhileValid RefetchOnce ErrorReturned NoKeyOnError MockNoDaemon MockEpoch HostHostOneCall RRaw
