SPECIFICATION SSpec
CONSTANTS
  Transport = "quic"
  ResidueAfterFailure = TRUE
  ShortCookieRead = TRUE
  DialResetsData = FALSE
  Alpns <- AlpnsQuic
  Alphabet <- AlphaWalk
  CutRecs <- CutAll
  MaxRecs = 6
  MaxDials = 3
  MaxCalls = 6
  MaxStore = 2
  CtxMode = "ignored"
  MaxStalls = 2
  StaleNextHop = FALSE
  Tails = TRUE
  Vias <- ViasBoth
INVARIANTS Emit RunAgrees
