"""C17 - offset filters implement their selection rule and reset cleanly.

spec/Filters.tla (LuckyPacketFilter modelled completely, NtimedFilter as a
control skeleton), exhaustive TLC runs on the property section, TLC-generated
behaviours replayed on the real filters (harness/c17), the recorded events
validated by TLC against spec/trace/FiltersTrace.tla (monitor decides,
strict reports drift).  The trace is validated in parallel shards.

The clock epoch is an environment of NtimedFilter.Do: the specification has
one action per Epoch() read and a clock step that may land between them
(NStepInDo).  TLC explores all placements and generates the schedules "a
clock step lands after the k-th Epoch() read of the j-th Do"; the harness
replays them with a registered clock whose Epoch() is scripted per read and
records what the reads returned; the trace specification replays every
recorded call through the same actions.
"""
import copy
import os
import re
from concurrent.futures import ThreadPoolExecutor

import vlib

MON = ("RRule", "RUnconf", "RRawWhen", "RHistIndep")
STRICT = ("SLucky", "SLReset", "SNtimed", "SNReads", "SNState")


def _cfg(ctx, name, tracefile, invs):
    p = ctx.path(name)
    with open(p, "w") as f:
        f.write('SPECIFICATION TSpec\nCONSTANTS\n  TraceFile = "%s"\nINVARIANTS %s\n' % (tracefile, " ".join(invs)))
    return p


def _shards(recs, target):
    """Cut at history boundaries: a lucky history starts with lnew, a group of
    Ntimed runs (sharing the memo of the history-independence monitor) with ngroup."""
    res, cur = [], []
    for r in recs:
        if r["ev"] in ("lnew", "ngroup") and len(cur) >= target:
            res.append(cur)
            cur = []
        cur.append(r)
    if cur:
        res.append(cur)
    return res


def _history(part, l):
    """Events of the history / group that contains position l (1-based) up to l."""
    i = l - 1
    while i > 0 and part[i]["ev"] not in ("lnew", "ngroup"):
        i -= 1
    return part[i:l]


def _validate(ctx, tag, part, invs, timeout, heap):
    tf = "trace_%s.ndjson" % tag
    tp = ctx.path(tf)
    vlib.write_ndjson(tp, part)
    cn = "FiltersTrace_%s.cfg" % tag
    cp = _cfg(ctx, cn, tf, invs)
    try:
        return ctx.validate("FiltersTrace", cn, tp, trace_name=tf, timeout=timeout, workers=1,
                            extra_files={cn: cp}, heap=heap)
    finally:
        for p in (tp, os.path.join(ctx.specdir(), tf)):
            try:
                os.remove(p)
            except OSError:
                pass


def _ghosts(recs):
    """Mirror of the ghosts of the property section (since, amb -> the allowed readings of
    'the samples seen since') along recorded Ntimed events.  Yields (index, record, cands,
    sep) for every ns record; sep = what began the current 'since' (creation | Reset |
    epoch-change | step-in-Do).  Statistics, signatures and self-checks only - no verdict."""
    since, amb, sep = (), (), "creation"
    for i, r in enumerate(recs):
        ev = r["ev"]
        if ev == "nnew":
            since, amb, sep = (), (), "creation"
        elif ev == "nr":
            since, amb, sep = (), (), "Reset"
        elif ev == "ne":
            since, amb, sep = (), (), "epoch-change"
        elif ev == "ns":
            c0 = {since, amb + since}
            cands = {c + (r["id"],) for c in c0}
            if r["ks"]:
                cands.add((r["id"],))
                sep = "step-in-Do"
            yield i, r, cands, sep
            if r["ks"]:
                since, amb = (), (r["id"],)
            else:
                since = since + (r["id"],)


def _ghosts_memo(recs):
    """_ghosts plus the mirror of the trace specification's memo (per group): known = every
    allowed reading of this output's samples-since was shown earlier in the group under an
    unambiguous reading, i.e. the history-independence clause judges this output."""
    memo, gi = set(), 0
    for i, r, cands, sep in _ghosts(recs):
        while gi < i:
            if recs[gi]["ev"] == "ngroup":
                memo = set()
            gi += 1
        known = all(c in memo for c in cands)
        yield i, r, cands, sep, known
        if not known and len(cands) == 1:
            memo |= cands


def _judged_stats(recs):
    """Which recorded events the monitor actually judges (mirrors the ghosts of the
    trace specification; statistics only, no verdict)."""
    st = dict(lucky_runs=0, lucky_samples=0, rule_judged=0, rule_judged_multi=0, unconf_judged=0,
              ntimed_runs=0, ntimed_refs=0, ntimed_groups=0, ntimed_samples=0, raw_cnt=0, raw_inb=0, hist_pairs=0,
              branches={}, nolog=0,
              # the interleaving dimension: Do calls inside which a clock step landed, outputs judged
              # under two or three readings of "seen since", and how
              indo_calls=0, indo_between_reads=0, multi_reading_outputs=0, multi_reading_pairs=0,
              multi_reading_raw=0, reads_per_do={})
    nontrivial = set()      # indices of runs with a non-degenerate judged output
    run = -1
    cap, lastn = 0, []
    for r in recs:
        ev = r["ev"]
        if ev == "lnew":
            run += 1
            st["lucky_runs"] += 1
            cap, lastn = r["cap"], []
        elif ev == "lr":
            lastn = []
        elif ev == "ls":
            st["lucky_samples"] += 1
            lastn = (lastn + [r["rtd"]])[-max(cap, 1):]
            if cap == 0:
                st["unconf_judged"] += 1
                nontrivial.add(run)
            elif len(set(lastn)) == len(lastn):
                st["rule_judged"] += 1
                if len(lastn) > 1:
                    st["rule_judged_multi"] += 1
                    nontrivial.add(run)
    runix = {}
    for i, r in enumerate(recs):
        if r["ev"] == "ngroup":
            st["ntimed_groups"] += 1
        elif r["ev"] == "nnew":
            run += 1
            st["ntimed_runs"] += 1
            if r["role"] == "ref":
                st["ntimed_refs"] += 1
        runix[i] = run
    for i, r, cands, sep, known in _ghosts_memo(recs):
        st["ntimed_samples"] += 1
        k = str(len(r["q"]))
        st["reads_per_do"][k] = st["reads_per_do"].get(k, 0) + 1
        if r["ks"]:
            st["indo_calls"] += 1
            if any(0 < x < len(r["q"]) for x in r["ks"]):
                st["indo_between_reads"] += 1
        multi = len(cands) > 1
        if multi:
            st["multi_reading_outputs"] += 1
        if known:
            st["hist_pairs"] += 1
            nontrivial.add(runix[i])
            if multi:
                st["multi_reading_pairs"] += 1
        if all(len(c) <= 3 for c in cands):
            st["raw_cnt"] += 1
            if multi:
                st["multi_reading_raw"] += 1
        elif r["inb"]:
            st["raw_inb"] += 1
            nontrivial.add(runix[i])
            if multi:
                st["multi_reading_raw"] += 1
        if r["logok"]:
            st["branches"][str(r["br"])] = st["branches"].get(str(r["br"]), 0) + 1
        else:
            st["nolog"] += 1
    return st, nontrivial


def _sched_stats(cases):
    """SPEC side: how the generated behaviours exercise the interleaving dimension."""
    g = dict(behaviours=0, with_step_in_do=0, steps_in_do=0, by_reads_before={}, step_then_more_samples=0)
    for c in cases:
        if c["m"] != "ntimed":
            continue
        g["behaviours"] += 1
        hit = False
        for j, e in enumerate(c["ev"]):
            for k in e.get("st") or []:
                hit = True
                g["steps_in_do"] += 1
                g["by_reads_before"][str(k)] = g["by_reads_before"].get(str(k), 0) + 1
                if j + 1 < len(c["ev"]) and c["ev"][j + 1]["t"] == "s":
                    g["step_then_more_samples"] += 1
        if hit:
            g["with_step_in_do"] += 1
    return g


def run(ctx):
    q = ctx.quick
    # several TLC JVMs run side by side below: without a cap every one starts a GC
    # thread per core and they spend their time in the kernel (measured 3x slower)
    os.environ["JAVA_TOOL_OPTIONS"] = (os.environ.get("JAVA_TOOL_OPTIONS", "") + " -XX:ParallelGCThreads=2").strip()
    # 1. design level: the property section of Filters.tla, exhaustively (small scope)
    # (the Ntimed configurations let a clock step land inside Do after 0, 1 or 2 Epoch() reads, several per behaviour)
    ctx.specdir()
    with ThreadPoolExecutor(max_workers=2) as ex:
        f1 = ex.submit(ctx.tlc, "FiltersMC", "Filters_exh.cfg" if q else "Filters_deep.cfg", workers=4, timeout=900,
                       tag="lucky-exh")
        f2 = ex.submit(ctx.tlc, "FiltersMC", "Filters_nexh.cfg" if q else "Filters_ndeep.cfg", workers=4, timeout=900,
                       tag="ntimed-exh")
        r, r2 = f1.result(), f2.result()
    ctx.log("TLC lucky exhaustive: %d distinct states (%ss)" % (r["distinct"], r["wall_s"]))
    ctx.log("TLC ntimed skeleton exhaustive, clock steps inside Do: %d distinct states (%ss)" % (r2["distinct"], r2["wall_s"]))

    # 2. spec -> code: TLC enumerates the behaviours
    # (n*gen: resets / clock steps between calls; ni*gen: one clock step inside a Do, at every place)
    gens = ["Filters_gen.cfg", "Filters_ngen.cfg", "Filters_nigen.cfg"] if q else \
           ["Filters_gen3.cfg", "Filters_gendeep.cfg", "Filters_ngendeep.cfg", "Filters_nigendeep.cfg"]
    with ThreadPoolExecutor(max_workers=4) as ex:
        outs = list(ex.map(lambda c: ctx.tlc("FiltersMC", c, workers=1, timeout=1500, tag="gen:" + c), gens))
    cases = []
    for g in outs:
        cases += ctx.emitted(g["out"])
    nl = sum(1 for c in cases if c["m"] == "lucky")
    nn = len(cases) - nl
    ctx.log("TLC generated %d lucky and %d ntimed behaviours" % (nl, nn))
    if nl < 5000 or nn < 5000:
        raise vlib.Inconclusive("behaviour generator produced only %d/%d behaviours" % (nl, nn))
    # vacuity guard of the interleaving dimension, on the SPEC side (what was generated, not how the code reacted)
    sched = _sched_stats(cases)
    ctx.log("generated schedules of clock steps inside Do: %s" % sched)
    if sched["with_step_in_do"] < 2000 or sched["step_then_more_samples"] < 1000 or \
            len([k for k in sched["by_reads_before"] if k != "0"]) < 2:
        raise vlib.Inconclusive("behaviour generator does not exercise clock steps inside Do: %s" % sched)
    cp = ctx.path("cases.ndjson")
    vlib.write_ndjson(cp, cases)

    # 3. the real filters
    trace, out = ctx.godriver("c17", "TestC17", cases=cp, timeout=1500, extra=("-v",))
    m = re.search(r"C17STATS (.*)", out)
    dstats = dict(kv.split("=") for kv in m.group(1).split()) if m else {}
    recs = vlib.read_ndjson(trace)
    ctx.log("driver: %d events (%s)" % (len(recs), m.group(1) if m else "no stats"))
    if not recs:
        raise vlib.Inconclusive("driver recorded nothing")

    # 4. code -> spec: monitor decides, strict reports drift
    target = max(45000, len(recs) // 8 + 1) if q else 240000     # quick: one wave of <= 8 shards
    shards = _shards(recs, target)
    heap = "2g" if q else "4g"
    par = 8 if q else 6

    def work(ix):
        part = shards[ix]
        ok, l, inv, tout = _validate(ctx, "s%d" % ix, part, MON + STRICT, 1500, heap)
        if ok:
            return ix, None, None, None
        if inv in STRICT:
            # does the property section hold on the whole shard?
            ok2, l2, inv2, _ = _validate(ctx, "m%d" % ix, part, MON, 1500, heap)
            if ok2:
                return ix, "drift", l, inv
            return ix, "violation", l2, inv2
        return ix, "violation", l, inv

    # self-check of the binding: a corrupted recorded field must be rejected by the monitor
    def selfcheck(kind):
        if kind == "lucky":
            i0 = next((i for i, r in enumerate(recs) if r["ev"] == "lnew" and r["cap"] == 3 and r["src"] == "gen"), 0)
        elif kind == "ntimed-indo":
            # a group in which a clock step landed inside a Do call
            # (and was followed by another call: that one's output has two readings of "seen since")
            i0 = next((i for i, r in enumerate(recs[:-1]) if r["ev"] == "ns" and r["ks"] and recs[i + 1]["ev"] == "ns"), 0)
            while i0 > 0 and recs[i0]["ev"] != "ngroup":
                i0 -= 1
        else:
            i0 = next((i for i, r in enumerate(recs) if r["ev"] == "ngroup"), 0)
        part = copy.deepcopy(recs[i0:i0 + 3000])
        hit = None
        if kind == "lucky":
            cap, lastn = 0, []
            for i, r in enumerate(part):
                if r["ev"] == "lnew":
                    cap, lastn = r["cap"], []
                elif r["ev"] == "lr":
                    lastn = []
                elif r["ev"] == "ls":
                    lastn = (lastn + [r["rtd"]])[-max(cap, 1):]
                    if cap > 0 and len(lastn) > 1 and len(set(lastn)) == len(lastn) and i > 100:
                        r["out"] += 5
                        hit = i
                        break
        else:
            for i, r, cands, _, known in _ghosts_memo(part):
                if kind == "ntimed-indo":
                    # an output judged under more than one reading of "seen since": equal to none of them
                    if r["role"] == "main" and known and len(cands) > 1:
                        r["o"] = [r["o"][0], r["o"][1], r["o"][2] ^ 1]
                        hit = i
                        break
                elif kind == "ntimed-pair":
                    # an output of the behaviour itself whose samples-since were shown by a reference run
                    if i > 100 and r["role"] == "main" and known:
                        r["o"] = [r["o"][0], r["o"][1], r["o"][2] ^ 1]
                        hit = i
                        break
                elif i > 100 and part[i - 1]["ev"] == "nnew":
                    r["err"] = r["tol"] + 1      # first sample since creation: must be raw
                    hit = i
                    break
        if hit is None:
            return kind, None
        ok, l, inv, _ = _validate(ctx, "c" + kind, part, MON, 600, "2g")
        # rejected at the corrupted record (or earlier: then the recorded behaviour itself is
        # rejected and the shards below report it)
        return kind, (not ok) and l is not None and l <= hit + 1 and inv in MON

    with ThreadPoolExecutor(max_workers=par) as ex:
        futs = [ex.submit(work, i) for i in range(len(shards))]
        scs = [ex.submit(selfcheck, k) for k in ("lucky", "ntimed-pair", "ntimed-raw", "ntimed-indo")]
        results = [f.result() for f in futs]
        sc = dict(f.result() for f in scs)
    ctx.log("corrupted-field self-check: %s" % sc)

    nval_events = 0
    bad_shards = 0
    for ix, kind, l, inv in results:
        part = shards[ix]
        if kind is None:
            nval_events += len(part)
            continue
        bad = part[l - 1] if l else None
        hist = _history(part, l) if l else []
        if kind == "drift":
            nval_events += len(part)
            ctx.drift.append("%s: recorded event differs from Filters.tla: %s" % (inv, bad))
            continue
        bad_shards += 1
        if inv in ("RRule", "RUnconf"):
            sig = "C17 %s LuckyPacketFilter.Do %s" % (inv, "unconfigured" if bad and bad["cap"] == 0 else "configured")
            what = "real LuckyPacketFilter output violates %s (cap=%s pick=%s): %s" % (
                inv, bad and bad["cap"], bad and bad["k"], bad)
        else:
            # the readings of "seen since" allowed for this output, and what began them
            cands, sep = {()}, "creation"
            for _, r, cs, sp in _ghosts(hist):
                cands, sep = cs, sp
            lens = sorted(len(c) for c in cands)
            if inv == "RRawWhen":
                cls = "first-three" if lens[-1] <= 3 else "within-bounds"
                sig = "C17 RRawWhen NtimedFilter.Do %s%s" % (cls, " after-step-in-Do" if sep == "step-in-Do" else "")
                what = "real NtimedFilter output is not the raw offset (%s sample(s) seen since %s, err=%s ns > tol=%s ns): %s" % (
                    "/".join(str(x) for x in lens), sep, bad and bad["err"], bad and bad["tol"], bad)
            else:
                sig = "C17 RHistIndep NtimedFilter after-%s" % sep
                what = ("real NtimedFilter output depends on samples seen before the last reset / clock step "
                        "(allowed readings of the samples seen since: %s): %s" % (sorted(cands), bad))
        ctx.violation(sig, what, dict(invariant=inv, event=bad, history=hist))

    for kind, okk in sc.items():
        if okk is None:
            ctx.notes.append("corrupted-field self-check (%s): no suitable record found" % kind)
        elif not okk and not ctx.violations and not ctx.known:
            raise vlib.Inconclusive("the monitor did not reject a corrupted %s record (binding is vacuous)" % kind)

    # 5. evidence
    st, nontrivial = _judged_stats(recs)
    runs = st["lucky_runs"] + st["ntimed_runs"]
    if st["rule_judged_multi"] < 1000 or st["raw_cnt"] < 1000 or st["raw_inb"] < 100 or st["hist_pairs"] < 1000:
        raise vlib.Inconclusive("monitor coverage too small: %s" % st)
    ex_samples = [r for r in recs if r.get("src") == "example"][:6]
    i1 = next(i for i, r in enumerate(recs) if r["ev"] == "ngroup")
    i2 = next((i for i, r in enumerate(recs) if r["ev"] == "ns" and r["ks"]), i1)
    ctx.notes.append(
        "interleaving dimension (a clock step lands inside NtimedFilter.Do, before / between / after its Epoch() reads): "
        "SPEC side: TLC explored every placement exhaustively (Filters_nexh/ndeep: StepAt 0..2, up to %s steps inside Do "
        "calls per behaviour) and generated %d Ntimed behaviours, %d of them with a clock step inside a Do (%d steps; by "
        "number of reads before the step: %s; %d followed by further samples). "
        "CODE side: %s Do calls had a schedule, %s steps landed inside a Do (%s between two Epoch() reads of one Do), "
        "%s scheduled places were not reached by the code (step performed after the call returned); Epoch() reads per Do: "
        "%s; %d outputs were judged under more than one allowed reading of 'seen since' (%d of them by the "
        "history-independence clause, %d by the raw-offset clause). The lucky packet filter made %s clock calls "
        "(Epoch/Now): the dimension does not exist for it."
        % ("3" if q else "4", sched["behaviours"], sched["with_step_in_do"], sched["steps_in_do"],
           dict(sorted(sched["by_reads_before"].items())), sched["step_then_more_samples"],
           dstats.get("sched_dos", "?"), dstats.get("indo_steps", "?"), dstats.get("between_reads", "?"),
           dstats.get("after_return", "?"), dict(sorted(st["reads_per_do"].items())),
           st["multi_reading_outputs"], st["multi_reading_pairs"], st["multi_reading_raw"],
           dstats.get("lucky_clock_calls", "?")))
    ctx.cov.update(
        evaluations=len(recs), distinct_nontrivial=len(nontrivial),
        rule="events recorded from the real filters: TLC-enumerated behaviours (lucky: every history of MaxEv events "
             "with pairwise distinct delays for cap,pick in 1..3 and the zero value, under offset/delay embeddings; "
             "ntimed: every sequence of sample classes (failLo,failHi) / Reset / epoch change of MaxEv events, and "
             "every such sequence (3 classes) with one clock step inside a Do call after its k-th Epoch() read, "
             "each preceded by its fresh-filter reference runs), seeded random histories (with clock steps inside "
             "Do calls), the repository's 7 example inputs; "
             "distinct_nontrivial = histories with at least one output judged by a non-degenerate monitor clause "
             "(median rule on a window of >= 2 distinct delays, unconfigured raw, in-bounds raw beyond the 3rd "
             "sample, or a metamorphic pair)",
        traces_validated_against_impl=runs if bad_shards == 0 else 0,
        exhaustive=True, judged=st, driver=dstats, shards=len(shards), generated_schedules=sched,
        samples=ex_samples + recs[1000:1004] + recs[i1:i1 + 6] + recs[i2:i2 + 2])
    ctx.assumptions += [
        "lucky packet: comparison with the selection rule only for windows with pairwise distinct round-trip delays "
        "(as the property states); ties are covered by strict mode only",
        "an even-sized pick set's median is accepted rounded to an integer in either direction",
        "ntimed: 'within the learned bounds' is judged only where it follows from the inputs alone (sample interval "
        "nested by >= 1 us in all earlier ones since the reset, or all identical); float rounding tolerance 1 ns + 1e-9 relative",
        "ntimed history independence: bitwise equal outputs for equal sample sequences since the last Reset / epoch "
        "change / creation, within groups of runs over the same concrete timestamps",
        "a sample whose Do call was in progress when the clock was stepped may count as seen before or since the step "
        "(the statement does not say): an output is judged under every such reading and must satisfy the clause under "
        "one of them (history independence) / is required to be raw only if every reading requires it; samples of "
        "calls that returned before the step never count as since, samples of calls entered after it always do",
        "NtimedFilter.Do and Reset of one filter are not called concurrently (one goroutine per filter in the service); "
        "the concurrency modelled is the clock being stepped by another goroutine between the filter's Epoch() reads, "
        "replayed deterministically by a registered clock whose Epoch() is scripted per read; a step placed after the "
        "last read of a call is performed after the call has returned",
        "offset embeddings a*v+b commute with the filter (inexact inverse images are skipped and counted: %s)"
        % dstats.get("lucky_inexact", "?"),
        "small scope: cap, pick <= 3 and <= 5 events in TLC; cap <= 8, pick <= 10, <= 30 events in seeded random histories",
    ]
