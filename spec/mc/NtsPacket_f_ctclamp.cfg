SPECIFICATION Spec
CONSTANTS
  MaxNf = 2
  Roles <- RolesAll
  PlaceholderTypedAsCookie = FALSE
  UidChecked = TRUE
  AdWhole = TRUE
  StopAtAuth = TRUE
  CtLenExact = FALSE
  LenChoices <- LenChoicesGen
  TruncMax = 2
INVARIANTS Sound
