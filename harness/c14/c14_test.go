// C14 driver: replays the cases enumerated by TLC (spec/Wire.tla,
// spec/NtsKeStream.tla) on the real wire codecs and records what they did, in
// model units (byte strings as arrays of small ints, lengths, kinds), for
// WireTrace.tla and NtsKeStreamTrace.tla (monitor + strict).
//
//	TestC14Wire  lay/layb/lvm/nts/ntsapi/sck/eck/crypt cases -> wire trace
//	TestC14Ke    (message, segmentation) behaviours           -> ke trace
package c14

import (
	"bufio"
	"bytes"
	"context"
	"crypto/ecdsa"
	"crypto/elliptic"
	crand "crypto/rand"
	"crypto/tls"
	"crypto/x509"
	"crypto/x509/pkix"
	"errors"
	"fmt"
	"io"
	"log/slog"
	"math/big"
	"math/rand"
	"net"
	"reflect"
	"slices"
	"strings"
	"testing"
	"time"

	"example.com/scion-time/net/csptp"
	"example.com/scion-time/net/ntp"
	"example.com/scion-time/net/nts"
	"example.com/scion-time/net/ntske"

	"verif/harness/internal/vio"
)

// ---------------------------------------------------------------- helpers

func ints(b []byte) []int {
	r := make([]int, len(b))
	for i, x := range b {
		r[i] = int(x)
	}
	return r
}

func unints(v []int) []byte {
	r := make([]byte, len(v))
	for i, x := range v {
		r[i] = byte(x)
	}
	return r
}

func intss(bs [][]byte) [][]int {
	r := make([][]int, len(bs))
	for i, b := range bs {
		r[i] = ints(b)
	}
	return r
}

func randBytes(rng *rand.Rand, n int) []byte {
	b := make([]byte, n)
	for i := range b {
		b[i] = byte(rng.Intn(256))
	}
	return b
}

func guard(f func()) (msg string) {
	defer func() {
		if r := recover(); r != nil {
			msg = fmt.Sprintf("panic: %v", r)
		}
	}()
	f()
	return "nil"
}

// ------------------------------------------------- struct fields by path

func fieldByPath(v reflect.Value, path string) reflect.Value {
	for _, p := range strings.Split(path, ".") {
		v = v.FieldByName(p)
		if !v.IsValid() {
			panic("no field " + path)
		}
	}
	return v
}

// beBytes returns the field's value as a big-endian (two's complement) byte
// string of its width, computed with math/big (independent of the codecs).
func beBytes(v reflect.Value) []byte {
	switch v.Kind() {
	case reflect.Array:
		r := make([]byte, v.Len())
		for i := range r {
			r[i] = byte(v.Index(i).Uint())
		}
		return r
	case reflect.Uint8, reflect.Uint16, reflect.Uint32, reflect.Uint64:
		w := int(v.Type().Size())
		return new(big.Int).SetUint64(v.Uint()).FillBytes(make([]byte, w))
	case reflect.Int8, reflect.Int16, reflect.Int32, reflect.Int64:
		w := int(v.Type().Size())
		x := big.NewInt(v.Int())
		if x.Sign() < 0 {
			x.Add(x, new(big.Int).Lsh(big.NewInt(1), uint(8*w)))
		}
		return x.FillBytes(make([]byte, w))
	}
	panic("unsupported kind " + v.Kind().String())
}

func setBytes(v reflect.Value, bs []byte) {
	switch v.Kind() {
	case reflect.Array:
		if v.Len() != len(bs) {
			panic("width mismatch")
		}
		for i := range bs {
			v.Index(i).SetUint(uint64(bs[i]))
		}
	case reflect.Uint8, reflect.Uint16, reflect.Uint32, reflect.Uint64:
		if int(v.Type().Size()) != len(bs) {
			panic("width mismatch")
		}
		v.SetUint(new(big.Int).SetBytes(bs).Uint64())
	case reflect.Int8, reflect.Int16, reflect.Int32, reflect.Int64:
		w := int(v.Type().Size())
		if w != len(bs) {
			panic("width mismatch")
		}
		x := new(big.Int).SetBytes(bs)
		if len(bs) > 0 && bs[0] >= 128 {
			x.Sub(x, new(big.Int).Lsh(big.NewInt(1), uint(8*w)))
		}
		v.SetInt(x.Int64())
	default:
		panic("unsupported kind " + v.Kind().String())
	}
}

func isNeg(v reflect.Value) bool {
	switch v.Kind() {
	case reflect.Int8, reflect.Int16, reflect.Int32, reflect.Int64:
		return v.Int() < 0
	}
	return false
}

// leaves lists the selector paths of all scalar/array leaves of a struct type.
func leaves(t reflect.Type, prefix string, out *[]string) {
	for i := 0; i < t.NumField(); i++ {
		f := t.Field(i)
		if f.Type.Kind() == reflect.Struct {
			leaves(f.Type, prefix+f.Name+".", out)
		} else {
			*out = append(*out, prefix+f.Name)
		}
	}
}

// ------------------------------------------------------- message adaptors

type adaptor struct {
	typ    reflect.Type
	declen func(p any) int
	encode func(b []byte, p any)       // into a buffer of exactly declen bytes
	decode func(p any, b []byte) error // from exactly declen bytes
	canon  func(p any)                 // fields not on the wire under the value's own flag are zero
}

var adaptors = map[string]adaptor{
	"ntp": {
		typ:    reflect.TypeOf(ntp.Packet{}),
		declen: func(any) int { return ntp.PacketLen },
		encode: func(b []byte, p any) {
			bb := b
			ntp.EncodePacket(&bb, p.(*ntp.Packet))
			if len(bb) != len(b) || &bb[0] != &b[0] {
				panic("EncodePacket did not use the PacketLen buffer")
			}
		},
		decode: func(p any, b []byte) error { return ntp.DecodePacket(p.(*ntp.Packet), b) },
		canon:  func(any) {},
	},
	"csptp": {
		typ:    reflect.TypeOf(csptp.Message{}),
		declen: func(any) int { return csptp.MinMessageLength },
		encode: func(b []byte, p any) { csptp.EncodeMessage(b, p.(*csptp.Message)) },
		decode: func(p any, b []byte) error { return csptp.DecodeMessage(p.(*csptp.Message), b) },
		canon:  func(any) {},
	},
	"reqtlv": {
		typ:    reflect.TypeOf(csptp.RequestTLV{}),
		declen: func(p any) int { return csptp.EncodedRequestTLVLength(p.(*csptp.RequestTLV)) },
		encode: func(b []byte, p any) { csptp.EncodeRequestTLV(b, p.(*csptp.RequestTLV)) },
		decode: func(p any, b []byte) error { return csptp.DecodeRequestTLV(p.(*csptp.RequestTLV), b) },
		canon:  func(any) {},
	},
	"resptlv": {
		typ:    reflect.TypeOf(csptp.ResponseTLV{}),
		declen: func(p any) int { return csptp.EncodedResponseTLVLength(p.(*csptp.ResponseTLV)) },
		encode: func(b []byte, p any) { csptp.EncodeResponseTLV(b, p.(*csptp.ResponseTLV)) },
		decode: func(p any, b []byte) error { return csptp.DecodeResponseTLV(p.(*csptp.ResponseTLV), b) },
		canon: func(p any) {
			t := p.(*csptp.ResponseTLV)
			if t.FlagField&csptp.TLVFlagServerStateDS != csptp.TLVFlagServerStateDS {
				t.ServerStateDS = csptp.ServerStateDS{}
			}
		},
	},
}

func hasCond(m string) bool { return m == "reqtlv" || m == "resptlv" }

// encodeExact encodes into a buffer of exactly the declared length.
func (a adaptor) encodeExact(p any) (b []byte, n int, msg string) {
	msg = guard(func() {
		n = a.declen(p)
		b = make([]byte, n)
		a.encode(b, p)
	})
	if b == nil {
		b = []byte{}
	}
	return
}

func (a adaptor) decodeExact(b []byte) (p any, msg string) {
	p = reflect.New(a.typ).Interface()
	msg = guard(func() {
		if err := a.decode(p, b); err != nil {
			panic("decode: " + err.Error())
		}
	})
	return
}

func valsOf(p any) map[string][]int {
	v := reflect.ValueOf(p).Elem()
	var names []string
	leaves(v.Type(), "", &names)
	r := map[string][]int{}
	for _, n := range names {
		r[n] = ints(beBytes(fieldByPath(v, n)))
	}
	return r
}

// --------------------------------------------------------------- cases

type wcase struct {
	K string `json:"k"`
	// lay
	M    string  `json:"m"`
	Ssds bool    `json:"ssds"`
	Base string  `json:"base"`
	F    string  `json:"f"`
	W    int     `json:"w"`
	Off  int     `json:"off"`
	Ty   string  `json:"ty"`
	Mode string  `json:"mode"`
	Pre  []int   `json:"pre"`
	Vs   [][]int `json:"vs"`
	// layp
	Pssds bool   `json:"pssds"`
	Pbase string `json:"pbase"`
	// layb
	Mask    []int `json:"mask"`
	FlagPos int   `json:"flagpos"`
	// lvm / sck
	X int `json:"x"`
	Y int `json:"y"`
	N int `json:"n"`
	// nts
	Uid int   `json:"uid"`
	Ck  []int `json:"ck"`
	Ph  []int `json:"ph"`
	Pt  []int `json:"pt"`
	// nts / ntsapi: class of the body of placeholder i ("zero", "first", "last", "rand"; absent = zero)
	Phb []string `json:"phb"`
	// ntsapi
	Api string `json:"api"`
	Cl  int    `json:"cl"`
}

// flag bits of layRec.Fl
const (
	fCanon  = 1 << iota // the input struct is a protocol value (nothing set that is not on the wire)
	fErrNil             // encode and decode worked in buffers of exactly the declared length
	fRt                 // decoded struct == input struct (reflect.DeepEqual)
	fRe                 // re-encoding the decoded struct gives the same bytes
	fNeg                // decoded Go value < 0
	fRest               // bytes outside the field are those of the base value
)

type layRec struct {
	K      string           `json:"k"`
	M      string           `json:"m"`
	Ssds   bool             `json:"ssds"`
	Base   string           `json:"base"`
	F      string           `json:"f"`
	W      int              `json:"w"`
	Off    int              `json:"off"`
	Mode   string           `json:"mode"`
	Pre    []int            `json:"pre"`    // sweep: the values are pre ++ <<x>> for x = 0..255 (vs is left empty)
	Vs     [][]int          `json:"vs"`     // classes: input values of the field (big-endian byte strings)
	Fl     []int            `json:"fl"`     // per value: flag bits, see above
	DecLen []int            `json:"declen"` // per value: declared length reported by the code
	Eb     [][]int          `json:"eb"`     // per value: bytes of the encoding at [off, off+w)
	Db     [][]int          `json:"db"`     // per value: the decoded field
	Err0   string           `json:"err0"`   // first encode/decode error, if any
	Diff   []string         `json:"diff"`   // fields whose decoded value differs from the input (for the report)
	Vals0  map[string][]int `json:"vals0"`  // the complete first input value
	Enc0   []int            `json:"enc0"`   // and its encoding
	Canon0 bool             `json:"canon0"`
}

type laybRec struct {
	K     string           `json:"k"`
	M     string           `json:"m"`
	Ssds  bool             `json:"ssds"`
	B     []int            `json:"b"`
	Err   string           `json:"err"`
	Reenc []int            `json:"reenc"`
	Dec   map[string][]int `json:"dec"`
}

// layp: a value decoded into a destination that holds a previously decoded value
type laypRec struct {
	K     string           `json:"k"`
	M     string           `json:"m"`
	Pssds bool             `json:"pssds"`
	Pbase string           `json:"pbase"`
	Ssds  bool             `json:"ssds"`
	Base  string           `json:"base"`
	Prev  map[string][]int `json:"prev"` // what the destination held (itself the result of a real decode)
	Vals  map[string][]int `json:"vals"` // the value that was encoded
	Enc   []int            `json:"enc"`
	Err   string           `json:"err"`
	Dec   map[string][]int `json:"dec"`  // decoded into the reused destination
	Dec0  map[string][]int `json:"dec0"` // decoded into a zero value
	Diff  []string         `json:"diff"` // fields of dec that differ from vals (for the report)
}

type lvmObs struct {
	Op   string `json:"op"`
	A    int    `json:"a"`
	B0   int    `json:"b0"`
	Li   int    `json:"li"`
	Vn   int    `json:"vn"`
	Mode int    `json:"mode"`
}

type lvmRec struct {
	K    string   `json:"k"`
	X    int      `json:"x"`
	B0   int      `json:"b0"`
	Li   int      `json:"li"`
	Vn   int      `json:"vn"`
	Mode int      `json:"mode"`
	Sets []lvmObs `json:"sets"`
}

type ntsIn struct {
	Uid []int   `json:"uid"`
	Ck  [][]int `json:"ck"`
	Ph  [][]int `json:"ph"`
	Pt  [][]int `json:"pt"`
}

type ntsDec struct {
	Err      string  `json:"err"`
	Uid      []int   `json:"uid"`
	Ck       [][]int `json:"ck"`
	Ph       []int   `json:"ph"`
	NonceLen int     `json:"noncelen"`
	CtLen    int     `json:"ctlen"`
}

type ntsRec struct {
	K      string  `json:"k"`
	Src    string  `json:"src"`
	In     ntsIn   `json:"in"`
	EncErr string  `json:"encerr"`
	Enc    []int   `json:"enc"` // extension fields (after the 48-byte NTP header)
	HdrOK  bool    `json:"hdr_ok"`
	Dec    ntsDec  `json:"dec"`
	AuthOK bool    `json:"auth_ok"`
	Rec    [][]int `json:"rec"` // cookies recovered from the authenticator by ProcessRequest
}

type ckVal struct {
	Err string `json:"err"`
	N   int    `json:"n"`
	X   []int  `json:"x"`
	Y   []int  `json:"y"`
}

type ckRec struct {
	K   string `json:"k"`
	In  ckVal  `json:"in"`
	Enc []int  `json:"enc"`
	Dec ckVal  `json:"dec"`
}

type cryptE struct {
	N  int `json:"n"`
	Xl int `json:"xl"`
	Yl int `json:"yl"`
}

type cryptRec struct {
	K      string `json:"k"`
	In     ckVal  `json:"in"`
	KeyID  int    `json:"keyid"`
	E      cryptE `json:"e"`
	EdecOK bool   `json:"edec_ok"`
	Out    ckVal  `json:"out"`
}

// --------------------------------------------------------------- lay

func baseStruct(a adaptor, m string, base string, ssds bool, rng *rand.Rand) any {
	p := reflect.New(a.typ).Interface()
	v := reflect.ValueOf(p).Elem()
	var names []string
	leaves(v.Type(), "", &names)
	for _, n := range names {
		f := fieldByPath(v, n)
		w := len(beBytes(f))
		var bs []byte
		switch base {
		case "zero":
			bs = make([]byte, w)
		case "ones":
			bs = bytes.Repeat([]byte{255}, w)
		default:
			bs = randBytes(rng, w)
		}
		if hasCond(m) && n == "FlagField" {
			bs[3] &^= 1
			if ssds {
				bs[3] |= 1
			}
		}
		setBytes(f, bs)
	}
	return p
}

func runLay(c wcase, base string, rng *rand.Rand) *layRec {
	a := adaptors[c.M]
	r := &layRec{K: "lay", M: c.M, Ssds: c.Ssds, Base: base, F: c.F, W: c.W, Off: c.Off, Mode: c.Mode,
		Pre: append([]int{}, c.Pre...), Vs: [][]int{}, Err0: "nil", Diff: []string{}}
	vs := c.Vs
	if c.Mode == "sweep" {
		vs = nil
		for x := 0; x < 256; x++ {
			vs = append(vs, append(append([]int{}, c.Pre...), x))
		}
	} else {
		r.Vs = vs
	}
	bp := baseStruct(a, c.M, base, c.Ssds, rng)
	pb := reflect.New(a.typ).Interface()
	reflect.ValueOf(pb).Elem().Set(reflect.ValueOf(bp).Elem())
	a.canon(pb)
	baseEnc, _, _ := a.encodeExact(pb)
	for i, v := range vs {
		p := reflect.New(a.typ).Interface()
		reflect.ValueOf(p).Elem().Set(reflect.ValueOf(bp).Elem())
		setBytes(fieldByPath(reflect.ValueOf(p).Elem(), c.F), unints(v))
		a.canon(p)
		input := reflect.New(a.typ).Interface()
		reflect.ValueOf(input).Elem().Set(reflect.ValueOf(p).Elem())

		enc, n, msg := a.encodeExact(p)
		errs := msg
		var q any
		if msg == "nil" {
			q, msg = a.decodeExact(enc)
			errs = msg
		}
		fl := fCanon
		r.DecLen = append(r.DecLen, n)
		if errs != "nil" {
			if r.Err0 == "nil" {
				r.Err0 = errs
			}
			r.Eb = append(r.Eb, []int{})
			r.Db = append(r.Db, []int{})
		} else {
			fl |= fErrNil
			qf := fieldByPath(reflect.ValueOf(q).Elem(), c.F)
			eb := []int{}
			if c.Off+c.W <= len(enc) {
				eb = ints(enc[c.Off : c.Off+c.W])
			}
			r.Eb = append(r.Eb, eb)
			r.Db = append(r.Db, ints(beBytes(qf)))
			if isNeg(qf) {
				fl |= fNeg
			}
			if reflect.DeepEqual(q, input) {
				fl |= fRt
			} else {
				vi, vq := valsOf(input), valsOf(q)
				for name := range vi {
					if !reflect.DeepEqual(vi[name], vq[name]) && !slices.Contains(r.Diff, name) && len(r.Diff) < 8 {
						r.Diff = append(r.Diff, name)
					}
				}
				slices.Sort(r.Diff)
			}
			enc2, _, msg2 := a.encodeExact(q)
			if msg2 == "nil" && bytes.Equal(enc, enc2) {
				fl |= fRe
			}
			rest := true
			for j := 0; j < len(enc) && j < len(baseEnc); j++ {
				if (j < c.Off || j >= c.Off+c.W) && enc[j] != baseEnc[j] {
					rest = false
				}
			}
			if !(hasCond(c.M) && c.F == "FlagField") && len(enc) != len(baseEnc) {
				rest = false
			}
			if rest {
				fl |= fRest
			}
		}
		r.Fl = append(r.Fl, fl)
		if i == 0 {
			r.Vals0 = valsOf(input)
			r.Enc0 = ints(enc)
			r.Canon0 = true
		}
	}
	return r
}

func runLayp(c wcase, pbase, base string, rng *rand.Rand) *laypRec {
	a := adaptors[c.M]
	r := &laypRec{K: "layp", M: c.M, Pssds: c.Pssds, Pbase: pbase, Ssds: c.Ssds, Base: base,
		Prev: map[string][]int{}, Vals: map[string][]int{}, Enc: []int{}, Dec: map[string][]int{}, Dec0: map[string][]int{}, Diff: []string{}}
	pv := baseStruct(a, c.M, pbase, c.Pssds, rng)
	a.canon(pv)
	cv := baseStruct(a, c.M, base, c.Ssds, rng)
	a.canon(cv)
	r.Vals = valsOf(cv)
	r.Err = guard(func() {
		penc, _, msg := a.encodeExact(pv)
		if msg != "nil" {
			panic(msg)
		}
		enc, _, msg := a.encodeExact(cv)
		if msg != "nil" {
			panic(msg)
		}
		r.Enc = ints(enc)
		// the destination first receives the previous datagram, then this one
		dst := reflect.New(a.typ).Interface()
		if err := a.decode(dst, penc); err != nil {
			panic("decode prev: " + err.Error())
		}
		r.Prev = valsOf(dst)
		if err := a.decode(dst, enc); err != nil {
			panic("decode: " + err.Error())
		}
		r.Dec = valsOf(dst)
		fresh := reflect.New(a.typ).Interface()
		if err := a.decode(fresh, enc); err != nil {
			panic("decode: " + err.Error())
		}
		r.Dec0 = valsOf(fresh)
		for name := range r.Vals {
			if !reflect.DeepEqual(r.Vals[name], r.Dec[name]) {
				r.Diff = append(r.Diff, name)
			}
		}
		slices.Sort(r.Diff)
	})
	return r
}

func runLayb(c wcase, b []byte) *laybRec {
	a := adaptors[c.M]
	r := &laybRec{K: "layb", M: c.M, Ssds: c.Ssds, B: ints(b), Reenc: []int{}, Dec: map[string][]int{}}
	q, msg := a.decodeExact(b)
	r.Err = msg
	if msg != "nil" {
		return r
	}
	r.Dec = valsOf(q)
	enc, _, msg2 := a.encodeExact(q)
	if msg2 != "nil" {
		r.Err = "reencode " + msg2
		return r
	}
	r.Reenc = ints(enc)
	return r
}

// --------------------------------------------------------------- lvm

func lvmObserve(p *ntp.Packet) (b0, li, vn, mode int) {
	var b []byte
	ntp.EncodePacket(&b, p)
	b0 = int(b[0])
	var q ntp.Packet
	if err := ntp.DecodePacket(&q, b); err != nil {
		panic(err)
	}
	return b0, int(q.LeapIndicator()), int(q.Version()), int(q.Mode())
}

func runLvm(x int) *lvmRec {
	r := &lvmRec{K: "lvm", X: x, Sets: []lvmObs{}}
	p := ntp.Packet{LVM: uint8(x)}
	r.B0, r.Li, r.Vn, r.Mode = lvmObserve(&p)
	for _, op := range []string{"li", "vn", "mode"} {
		n := 8
		if op == "li" {
			n = 4
		}
		for a := 0; a < n; a++ {
			p := ntp.Packet{LVM: uint8(x)}
			switch op {
			case "li":
				p.SetLeapIndicator(uint8(a))
			case "vn":
				p.SetVersion(uint8(a))
			case "mode":
				p.SetMode(uint8(a))
			}
			o := lvmObs{Op: op, A: a}
			o.B0, o.Li, o.Vn, o.Mode = lvmObserve(&p)
			r.Sets = append(r.Sets, o)
		}
	}
	return r
}

// --------------------------------------------------------------- nts

func runNts(src string, pkt *nts.Packet, in ntsIn, key []byte, rng *rand.Rand) *ntsRec {
	r := &ntsRec{K: "nts", Src: src, In: in, Enc: []int{}, Rec: [][]int{},
		Dec: ntsDec{Err: "none", Uid: []int{}, Ck: [][]int{}, Ph: []int{}}}
	hdr := randBytes(rng, 48)
	b := append([]byte{}, hdr...)
	r.EncErr = guard(func() { nts.EncodePacket(&b, pkt) })
	if r.EncErr != "nil" {
		return r
	}
	r.HdrOK = len(b) >= 48 && bytes.Equal(b[:48], hdr)
	r.Enc = ints(b[48:])
	var d nts.Packet
	msg := guard(func() {
		if err := nts.DecodePacket(&d, b); err != nil {
			panic("decode: " + err.Error())
		}
	})
	r.Dec.Err = msg
	if msg != "nil" {
		if strings.Contains(msg, "unique identifier") {
			r.Dec.Err = "nouid"
		} else if strings.Contains(msg, "authenticator") {
			r.Dec.Err = "noauth"
		}
	}
	r.Dec.Uid = ints(d.UniqueID.ID)
	for _, c := range d.Cookies {
		r.Dec.Ck = append(r.Dec.Ck, ints(c.Cookie))
	}
	for _, c := range d.CookiePlaceholders {
		r.Dec.Ph = append(r.Dec.Ph, int(c.Length)-4)
	}
	r.Dec.NonceLen = len(d.Auth.Nonce)
	r.Dec.CtLen = len(d.Auth.CipherText)
	if msg == "nil" {
		nck := len(d.Cookies)
		am := guard(func() {
			if err := nts.ProcessRequest(b, key, &d); err != nil {
				panic("auth: " + err.Error())
			}
		})
		r.AuthOK = am == "nil"
		if r.AuthOK {
			for _, c := range d.Cookies[nck:] {
				r.Rec = append(r.Rec, ints(c.Cookie))
			}
		}
	}
	return r
}

// phBody is a placeholder body of class cl (Wire.tla PhBody): all zero, a single non-zero byte at the
// first / last position, or seeded random bytes with at least one non-zero byte.
func phBody(n int, cl string, rng *rand.Rand) []byte {
	b := make([]byte, n)
	if n == 0 {
		return b
	}
	switch cl {
	case "", "zero":
	case "first":
		b[0] = byte(1 + rng.Intn(255))
	case "last":
		b[n-1] = byte(1 + rng.Intn(255))
	case "rand":
		for i := range b {
			b[i] = byte(rng.Intn(256))
		}
		if bytes.Equal(b, make([]byte, n)) {
			b[rng.Intn(n)] = byte(1 + rng.Intn(255))
		}
	default:
		panic("unknown placeholder body class " + cl)
	}
	return b
}

func phClass(c wcase, i int) string {
	if i < len(c.Phb) {
		return c.Phb[i]
	}
	return "zero"
}

func ntsFromShape(c wcase, rng *rand.Rand) (*nts.Packet, ntsIn, []byte) {
	key := randBytes(rng, 32)
	in := ntsIn{Uid: []int{}, Ck: [][]int{}, Ph: [][]int{}, Pt: [][]int{}}
	var pkt nts.Packet
	uid := randBytes(rng, c.Uid)
	if len(c.Pt) > 0 {
		var cks [][]byte
		for _, n := range c.Pt {
			ck := randBytes(rng, n)
			cks = append(cks, ck)
			in.Pt = append(in.Pt, ints(ck))
		}
		pkt = nts.NewResponsePacket(cks, key, uid)
	} else {
		pkt.UniqueID.ID = uid
		pkt.Auth.Key = key
	}
	in.Uid = ints(uid)
	for _, n := range c.Ck {
		ck := randBytes(rng, n)
		var x nts.Cookie
		x.Cookie = ck
		pkt.Cookies = append(pkt.Cookies, x)
		in.Ck = append(in.Ck, ints(ck))
	}
	for i, n := range c.Ph {
		var x nts.CookiePlaceholder
		x.Cookie = phBody(n, phClass(c, i), rng)
		pkt.CookiePlaceholders = append(pkt.CookiePlaceholders, x)
		in.Ph = append(in.Ph, ints(x.Cookie))
	}
	return &pkt, in, key
}

func ntsFromAPI(c wcase, rng *rand.Rand) (*nts.Packet, ntsIn, []byte) {
	key := randBytes(rng, 32)
	in := ntsIn{Uid: []int{}, Ck: [][]int{}, Ph: [][]int{}, Pt: [][]int{}}
	var cks [][]byte
	for i := 0; i < c.N; i++ {
		cks = append(cks, randBytes(rng, c.Cl))
	}
	if c.Api == "req" {
		pkt, id := nts.NewRequestPacket(ntske.Data{C2sKey: key, S2cKey: randBytes(rng, 32), Cookie: cks})
		in.Uid = ints(id)
		in.Ck = [][]int{ints(cks[0])}
		// NewRequestPacket fills the placeholders with zeros; the bodies belong to the caller
		// (CookiePlaceholder.Cookie is exported and packed unchanged): contents by class
		for i := c.N; i < 8; i++ {
			j := i - c.N
			body := phBody(c.Cl, phClass(c, j), rng)
			if j < len(pkt.CookiePlaceholders) && phClass(c, j) != "zero" {
				pkt.CookiePlaceholders[j].Cookie = body
			}
			in.Ph = append(in.Ph, ints(body))
		}
		return &pkt, in, key
	}
	uid := randBytes(rng, 32)
	pkt := nts.NewResponsePacket(cks, key, uid)
	in.Uid = ints(uid)
	in.Pt = intss(cks)
	return &pkt, in, key
}

// --------------------------------------------------------------- cookies

func runSck(c wcase, rng *rand.Rand) any {
	x, y := randBytes(rng, c.X), randBytes(rng, c.Y)
	in := ckVal{Err: "nil", N: c.N, X: ints(x), Y: ints(y)}
	switch c.K {
	case "sck":
		sc := ntske.ServerCookie{Algo: uint16(c.N), S2C: x, C2S: y}
		enc := sc.Encode()
		var d ntske.ServerCookie
		msg := guard(func() {
			if err := d.Decode(enc); err != nil {
				panic("decode: " + err.Error())
			}
		})
		return &ckRec{K: "sck", In: in, Enc: ints(enc), Dec: ckVal{Err: msg, N: int(d.Algo), X: ints(d.S2C), Y: ints(d.C2S)}}
	case "eck":
		ec := ntske.EncryptedServerCookie{ID: uint16(c.N), Nonce: x, Ciphertext: y}
		enc := ec.Encode()
		var d ntske.EncryptedServerCookie
		msg := guard(func() {
			if err := d.Decode(enc); err != nil {
				panic("decode: " + err.Error())
			}
		})
		return &ckRec{K: "eck", In: in, Enc: ints(enc), Dec: ckVal{Err: msg, N: int(d.ID), X: ints(d.Nonce), Y: ints(d.Ciphertext)}}
	}
	// crypt: EncryptWithNonce -> Encode -> Decode -> Decrypt
	key := randBytes(rng, 32)
	sc := ntske.ServerCookie{Algo: uint16(c.N), S2C: x, C2S: y}
	r := &cryptRec{K: "crypt", In: in, KeyID: c.N, Out: ckVal{Err: "none", X: []int{}, Y: []int{}}}
	msg := guard(func() {
		e, err := sc.EncryptWithNonce(key, c.N)
		if err != nil {
			panic("encrypt: " + err.Error())
		}
		r.E = cryptE{N: int(e.ID), Xl: len(e.Nonce), Yl: len(e.Ciphertext)}
		wire := e.Encode()
		var d ntske.EncryptedServerCookie
		if err := d.Decode(wire); err != nil {
			panic("decode: " + err.Error())
		}
		r.EdecOK = d.ID == e.ID && bytes.Equal(d.Nonce, e.Nonce) && bytes.Equal(d.Ciphertext, e.Ciphertext)
		out, err := d.Decrypt(key)
		if err != nil {
			panic("decrypt: " + err.Error())
		}
		r.Out = ckVal{Err: "nil", N: int(out.Algo), X: ints(out.S2C), Y: ints(out.C2S)}
	})
	if msg != "nil" {
		r.Out.Err = msg
	}
	return r
}

// --------------------------------------------------------------- TestC14Wire

func TestC14Wire(t *testing.T) {
	cases := vio.ReadCases[wcase](t)
	out := vio.Create(t)
	defer out.Close()
	rng := vio.Rand()
	counts := map[string]int{}
	for _, c := range cases {
		switch c.K {
		case "lay":
			out.Emit(runLay(c, c.Base, rng))
			counts["lay"]++
			if c.Mode == "classes" && c.Base == "zero" {
				// the same values over a seeded random base pattern
				out.Emit(runLay(c, "rand", rng))
				counts["lay"]++
			}
		case "layp":
			out.Emit(runLayp(c, c.Pbase, c.Base, rng))
			out.Emit(runLayp(c, "rand", c.Base, rng))
			out.Emit(runLayp(c, c.Pbase, "rand", rng))
			out.Emit(runLayp(c, "rand", "rand", rng))
			counts["layp"] += 4
		case "layb":
			n := 8
			if vio.Thorough() {
				n = 200
			}
			for i := 0; i < n+3; i++ {
				b := make([]byte, len(c.Mask))
				for j := range b {
					switch {
					case i == 0:
						b[j] = 0
					case i == 1:
						b[j] = 255
					case i == 2:
						b[j] = 0xaa
					default:
						b[j] = byte(rng.Intn(256))
					}
					if c.Mask[j] == 0 {
						b[j] = 0
					}
				}
				if c.FlagPos > 0 {
					b[c.FlagPos-1] &^= 1
					if c.Ssds {
						b[c.FlagPos-1] |= 1
					}
				}
				out.Emit(runLayb(c, b))
				counts["layb"]++
			}
		case "lvm":
			out.Emit(runLvm(c.X))
			counts["lvm"]++
		case "nts":
			for i := 0; i < 1; i++ {
				pkt, in, key := ntsFromShape(c, rng)
				out.Emit(runNts("gen", pkt, in, key, rng))
				counts["nts"]++
			}
		case "ntsapi":
			pkt, in, key := ntsFromAPI(c, rng)
			out.Emit(runNts("api-"+c.Api, pkt, in, key, rng))
			counts["nts"]++
		case "sck", "eck", "crypt":
			out.Emit(runSck(c, rng))
			counts[c.K]++
		default:
			t.Fatalf("unknown case kind %q", c.K)
		}
	}
	t.Logf("C14 wire records: %v (cases=%d)", counts, len(cases))
	if out.N == 0 {
		t.Fatal("no record produced")
	}
}

// =============================================================== NTS-KE stream

type keRecord struct {
	T    string `json:"t"`
	Crit bool   `json:"crit"`
	N    int    `json:"n"`
	Body []int  `json:"body"`
}

type kcase struct {
	Recs []keRecord `json:"recs"`
	Cuts []int      `json:"cuts"`
}

type keData struct {
	Algo    int     `json:"algo"`
	Cookies [][]int `json:"cookies"`
	Server  []int   `json:"server"`
	Port    int     `json:"port"`
}

type keRec struct {
	Mode   string     `json:"mode"` // mem | tls
	Recs   []keRecord `json:"recs"`
	Stream []int      `json:"stream"`
	Plan   []int      `json:"plan"` // positions at which the transport was asked to cut
	Cuts   []int      `json:"cuts"` // positions at which its reads actually ended
	Data   keData     `json:"data"`
	Err    string     `json:"err"`
	Data0  keData     `json:"data0"` // same stream in one piece
	Err0   string     `json:"err0"`
}

func toRecord(r keRecord) ntske.Record {
	switch r.T {
	case "eom":
		return ntske.End{}
	case "np":
		return ntske.NextProto{NextProto: uint16(r.N)}
	case "ae":
		al := make([]uint16, len(r.Body))
		for i, a := range r.Body {
			al[i] = uint16(a)
		}
		return ntske.Algorithm{Algo: al}
	case "ck":
		return ntske.Cookie{Cookie: unints(r.Body)}
	case "sv":
		return ntske.Server{Addr: unints(r.Body), Critical: r.Crit}
	case "pt":
		return ntske.Port{Port: uint16(r.N), Critical: r.Crit}
	case "er":
		return ntske.Error{Code: uint16(r.N)}
	case "wn":
		return ntske.Warning{Code: uint16(r.N)}
	}
	panic("unknown record " + r.T)
}

// packStream builds the message with the real pack methods (ExchangeMsg.Pack).
// Records of a type the package cannot pack ("unk") are written down directly.
func packStream(recs []keRecord) []byte {
	s := []byte{}
	var m ntske.ExchangeMsg
	flush := func() {
		if len(m.Record) == 0 {
			return
		}
		buf, err := m.Pack()
		if err != nil {
			panic(err)
		}
		s = append(s, buf.Bytes()...)
		m = ntske.ExchangeMsg{}
	}
	for _, r := range recs {
		if r.T == "unk" {
			flush()
			ty := uint16(r.N)
			if r.Crit {
				ty |= 1 << 15
			}
			s = append(s, byte(ty>>8), byte(ty), byte(len(r.Body)>>8), byte(len(r.Body)))
			s = append(s, unints(r.Body)...)
			continue
		}
		m.AddRecord(toRecord(r))
	}
	flush()
	return s
}

// chunkReader hands out the stream in the planned pieces: every Read returns
// the rest of the current piece (at most len(p)) and never crosses a cut.
type chunkReader struct {
	s    []byte
	plan []int
	pos  int
	obs  []int
}

func (c *chunkReader) Read(p []byte) (int, error) {
	if c.pos >= len(c.s) {
		return 0, io.EOF
	}
	if len(p) == 0 {
		return 0, nil
	}
	bound := len(c.s)
	for _, k := range c.plan {
		if k > c.pos && k < bound {
			bound = k
			break
		}
	}
	n := copy(p, c.s[c.pos:bound])
	c.pos += n
	c.obs = append(c.obs, c.pos)
	return n, nil
}

// obsReader records where the reads of a real connection ended.
type obsReader struct {
	r   io.Reader
	pos int
	obs []int
}

func (o *obsReader) Read(p []byte) (int, error) {
	n, err := o.r.Read(p)
	if n > 0 {
		o.pos += n
		o.obs = append(o.obs, o.pos)
	}
	return n, err
}

var discard = slog.New(slog.NewTextHandler(io.Discard, nil))

func errClass(err error) string {
	switch {
	case err == nil:
		return "nil"
	case errors.Is(err, io.EOF):
		return "eof"
	case errors.Is(err, io.ErrUnexpectedEOF):
		return "unexpected_eof"
	}
	m := err.Error()
	switch {
	case strings.Contains(m, "unrecognized critical"):
		return "unrec_critical"
	case strings.Contains(m, "bad request"):
		return "bad_request"
	case strings.Contains(m, "internal server"):
		return "internal_server"
	case strings.Contains(m, "unknown error"):
		return "unknown_error"
	case strings.HasPrefix(m, "unknown record type"):
		return "critical"
	}
	return "other: " + m
}

func readFrom(r io.Reader) (keData, string) {
	var d ntske.Data
	var err error
	msg := guard(func() { err = ntske.ReadData(context.Background(), discard, bufio.NewReader(r), &d) })
	kd := keData{Algo: int(d.Algo), Cookies: [][]int{}, Server: ints([]byte(d.Server)), Port: int(d.Port)}
	for _, c := range d.Cookie {
		kd.Cookies = append(kd.Cookies, ints(c))
	}
	if msg != "nil" {
		return kd, msg
	}
	return kd, errClass(err)
}

func normPlan(plan []int, n int) []int {
	r := []int{}
	last := 0
	for _, k := range plan {
		if k > last && k < n {
			r = append(r, k)
			last = k
		}
	}
	return r
}

func runKeMem(recs []keRecord, s []byte, plan []int) *keRec {
	r := &keRec{Mode: "mem", Recs: recs, Stream: ints(s), Plan: plan}
	cr := &chunkReader{s: s, plan: plan}
	r.Data, r.Err = readFrom(cr)
	r.Cuts = append([]int{}, cr.obs...)
	r.Data0, r.Err0 = readFrom(&chunkReader{s: s})
	return r
}

// ---- a real TLS connection (in memory), written in explicit pieces

var tlsCert = func() tls.Certificate {
	key, err := ecdsa.GenerateKey(elliptic.P256(), crand.Reader)
	if err != nil {
		panic(err)
	}
	tmpl := x509.Certificate{SerialNumber: big.NewInt(1), Subject: pkix.Name{CommonName: "c14"},
		NotBefore: time.Now().Add(-time.Hour), NotAfter: time.Now().Add(24 * time.Hour),
		DNSNames: []string{"c14"}}
	der, err := x509.CreateCertificate(crand.Reader, &tmpl, &tmpl, &key.PublicKey, key)
	if err != nil {
		panic(err)
	}
	return tls.Certificate{Certificate: [][]byte{der}, PrivateKey: key}
}()

func runKeTLS(recs []keRecord, s []byte, plan []int) (*keRec, error) {
	r := &keRec{Mode: "tls", Recs: recs, Stream: ints(s), Plan: plan}
	cp, sp := net.Pipe()
	srv := tls.Server(sp, &tls.Config{Certificates: []tls.Certificate{tlsCert}, NextProtos: []string{"ntske/1"}})
	cli := tls.Client(cp, &tls.Config{InsecureSkipVerify: true, NextProtos: []string{"ntske/1"}, ServerName: "c14"})
	dl := time.Now().Add(20 * time.Second)
	_ = cp.SetDeadline(dl)
	_ = sp.SetDeadline(dl)
	done := make(chan struct{})
	go func() {
		defer close(done)
		defer sp.Close()
		if err := srv.Handshake(); err != nil {
			return
		}
		last := 0
		for _, k := range append(append([]int{}, plan...), len(s)) {
			if k <= last {
				continue
			}
			if _, err := srv.Write(s[last:k]); err != nil {
				return
			}
			last = k
		}
		_ = srv.CloseWrite() // close_notify: the client sees io.EOF if it reads on
	}()
	if err := cli.Handshake(); err != nil {
		cp.Close()
		<-done
		return nil, err
	}
	or := &obsReader{r: cli}
	r.Data, r.Err = readFrom(or)
	r.Cuts = append([]int{}, or.obs...)
	// net.Pipe is synchronous: closing the pipe (not the TLS layer, whose
	// close_notify would wait for the peer) releases a server still writing
	cp.Close()
	<-done
	if strings.HasPrefix(r.Err, "other:") {
		return nil, errors.New(r.Err)
	}
	r.Data0, r.Err0 = readFrom(&chunkReader{s: s})
	return r, nil
}

// the message a server sends (core/server/ntske.go newNTSKEMsg), real-sized
func serverMessage(rng *rand.Rand, ncookies int) []keRecord {
	recs := []keRecord{
		{T: "np", Crit: true, N: 0, Body: []int{}},
		{T: "ae", Crit: true, N: 0, Body: []int{ntske.AES_SIV_CMAC_256}},
		{T: "sv", Crit: false, N: 0, Body: ints([]byte("127.0.0.1"))},
		{T: "pt", Crit: false, N: 10123, Body: []int{}},
	}
	key := randBytes(rng, 32)
	sc := ntske.ServerCookie{Algo: ntske.AES_SIV_CMAC_256, S2C: randBytes(rng, 32), C2S: randBytes(rng, 32)}
	for i := 0; i < ncookies; i++ {
		e, err := sc.EncryptWithNonce(key, 1+i)
		if err != nil {
			panic(err)
		}
		recs = append(recs, keRecord{T: "ck", Crit: false, N: 0, Body: ints(e.Encode())})
	}
	return append(recs, keRecord{T: "eom", Crit: true, N: 0, Body: []int{}})
}

func normRecs(recs []keRecord) []keRecord {
	for i := range recs {
		if recs[i].Body == nil {
			recs[i].Body = []int{}
		}
	}
	return recs
}

func TestC14Ke(t *testing.T) {
	cases := vio.ReadCases[kcase](t)
	out := vio.Create(t)
	defer out.Close()
	rng := vio.Rand()
	nmem, ntls, nreal := 0, 0, 0
	tlsEvery := 97
	if vio.Thorough() {
		tlsEvery = 23
	}
	for i, c := range cases {
		recs := normRecs(c.Recs)
		s := packStream(recs)
		plan := normPlan(c.Cuts, len(s))
		out.Emit(runKeMem(recs, s, plan))
		nmem++
		if (i+int(vio.Seed()))%tlsEvery == 0 {
			r, err := runKeTLS(recs, s, plan)
			if err != nil {
				t.Fatalf("tls transport failed (not an observation): %v", err)
			}
			out.Emit(r)
			ntls++
		}
	}
	// real-sized server messages: every single cut (thorough) / seeded cuts, and seeded multi-cuts
	nreps := 1
	if vio.Thorough() {
		nreps = 2
	}
	for rep := 0; rep < nreps; rep++ {
		for _, nc := range []int{1, 2, 8} {
			recs := serverMessage(rng, nc)
			s := packStream(recs)
			var plans [][]int
			step := 37
			if vio.Thorough() {
				step = 11
			}
			for k := 1 + rng.Intn(step); k < len(s); k += step {
				plans = append(plans, []int{k})
			}
			nmulti := 20
			if vio.Thorough() {
				nmulti = 150
			}
			for j := 0; j < nmulti; j++ {
				n := 2 + rng.Intn(3)
				var p []int
				for len(p) < n {
					p = append(p, 1+rng.Intn(len(s)-1))
				}
				// sorted, distinct
				for a := range p {
					for b := a + 1; b < len(p); b++ {
						if p[b] < p[a] {
							p[a], p[b] = p[b], p[a]
						}
					}
				}
				plans = append(plans, normPlan(p, len(s)))
			}
			for j, p := range plans {
				out.Emit(runKeMem(recs, s, p))
				nreal++
				if j%29 == 0 {
					r, err := runKeTLS(recs, s, p)
					if err != nil {
						t.Fatalf("tls transport failed (not an observation): %v", err)
					}
					out.Emit(r)
					ntls++
				}
			}
		}
	}
	t.Logf("C14 ke records: mem=%d tls=%d real-sized=%d (cases=%d)", nmem, ntls, nreal, len(cases))
	if out.N == 0 {
		t.Fatal("no record produced")
	}
}
