package c01

import (
	"math"
	"math/big"
	"os"
	"testing"
	"time"

	"example.com/scion-time/core/sync"

	"verif/harness/internal/vio"
)

// statedReal: the statement's list of settings that void the bound, on the
// real configuration, over the integers (math/big: no machine word involved).
func statedReal(cfg sync.Config) bool {
	two := big.NewInt(2)
	dt := new(big.Int).Mul(two, big.NewInt(int64(cfg.SyncTimeout)))
	return cfg.ReferenceClockImpact <= 1 || cfg.PeerClockImpact <= 1 ||
		cfg.PeerClockImpact-cfg.ReferenceClockImpact <= 1 ||
		cfg.SyncInterval <= 0 || dt.Cmp(big.NewInt(int64(cfg.SyncInterval))) > 0
}

// bootCase: does Run refuse the configuration? (one all-failing round if not)
func bootCase(t *testing.T, out *vio.Out, ci int, c tcase, ei int, tau time.Duration) {
	e := embs[ei]
	cfg := realCfg(c.Cfg, e, tau)
	res := runOnce(t, cfg, e.a*c.Cfg.Drift, tau, 1,
		errClocks(c.Cfg.Nref), errClocks(c.Cfg.Npeer), nil, nil)
	if res.panicked && res.rec.touched {
		t.Fatalf("case %d: sync.Run panicked inside the loop: %s", ci, res.msg)
	}
	sr := statedReal(cfg)
	if sr != c.Stated {
		t.Fatalf("case %d: embedding does not preserve the statement's classification: %+v", ci, cfg)
	}
	out.Emit(rec{K: "boot", Case: ci, Emb: ei, Tau: int64(tau), Unit: tau.String(), Cfg: c.Cfg, Refused: res.panicked,
		RawOK: !sr || res.panicked, Exact: true})
}

// Word-range start-up cases (kind "bootw"): the three Durations of the
// configuration range over the whole model word -128 .. 127. Time units:
//   2^56 ns  - the word maps onto int64 exactly (-128 -> MinInt64, 64 -> 2^62),
//   2^56 ns with 127 -> MaxInt64 (only for cases that contain a 127),
//   1 ns     - the same numbers as ordinary small durations.
// The clock's drift is per time unit, so Drift(SyncInterval) stays small.
const wordUnit = time.Duration(1) << 56

type wordEmb struct {
	unit time.Duration
	ext  bool
	name string
	emb  int // index of the corresponding value embedding (for the record)
}

var wordEmbs = []wordEmb{{wordUnit, false, "2^56ns", 4}, {wordUnit, true, "2^56ns,127=MaxInt64", 5}, {time.Nanosecond, false, "1ns", 0}}

func (w wordEmb) dur(v int64) time.Duration {
	if w.ext && v == wordMax {
		return time.Duration(math.MaxInt64)
	}
	return time.Duration(v) * w.unit // -128 * 2^56 = MinInt64 exactly
}

func hasWordMaxCfg(c mcfg) bool {
	return c.Cutoff == wordMax || c.Interval == wordMax || c.Timeout == wordMax
}

// bootWordCase: refused (Run panics before the loop is reached) or accepted
// (Run enters the loop: one all-failing round up to the first clk.Sleep).
func bootWordCase(t *testing.T, out *vio.Out, ci int, c tcase, w wordEmb) {
	cfg := sync.Config{
		ReferenceClockImpact: float64(c.Cfg.Ri4) / 4,
		PeerClockImpact:      float64(c.Cfg.Pi4) / 4,
		PeerClockCutoff:      w.dur(c.Cfg.Cutoff),
		SyncTimeout:          w.dur(c.Cfg.Timeout),
		SyncInterval:         w.dur(c.Cfg.Interval),
	}
	res := runOnce(t, cfg, c.Cfg.Drift, w.unit, 1, errClocks(c.Cfg.Nref), errClocks(c.Cfg.Npeer), nil, nil)
	if res.panicked && res.rec.touched {
		t.Fatalf("case %d: sync.Run panicked inside the loop: %s", ci, res.msg)
	}
	if !res.panicked && !res.rec.touched {
		t.Fatalf("case %d: sync.Run neither panicked nor reached the loop", ci)
	}
	sr := statedReal(cfg)
	if sr != c.Stated {
		t.Fatalf("case %d: embedding %s does not preserve the statement's classification: %+v", ci, w.name, cfg)
	}
	out.Emit(rec{K: "boot", Case: ci, Emb: w.emb, Tau: 0, Unit: w.name, Word: true, Cfg: c.Cfg, Refused: res.panicked,
		RawOK: !sr || res.panicked, Exact: true})
}

// runCase replays one behaviour; returns (records, inexact records).
func runCase(t *testing.T, out *vio.Out, ci int, c tcase, ei int) (int, int) {
	e := embs[ei]
	tau := time.Millisecond
	cfg := realCfg(c.Cfg, e, tau)
	refs := scripts(c.Cfg.Nref, c.Rounds, false, e, cfg.SyncTimeout, tau)
	peers := scripts(c.Cfg.Npeer, c.Rounds, true, e, cfg.SyncTimeout, tau)
	driftPer := e.a * c.Cfg.Drift
	d := driftPer * c.Cfg.Interval // clk.Drift(cfg.SyncInterval)
	boot := rec{K: "boot", Case: ci, Emb: ei, Tau: int64(tau), Unit: tau.String(), Cfg: c.Cfg, RawOK: true, Exact: true}
	el := make([]elapse, len(c.Rounds)) // el[k]: the Sleep call between round k and round k+1
	for i, m := range c.Rounds {
		el[i] = elapse{m.Slp, m.Stp}
	}
	res := runOnce(t, cfg, driftPer, tau, len(c.Rounds), refs, peers, el, func(done []observed, pending observed) {
		// the scripted rounds did not complete: everything seen so far, then the
		// pending round (no Sleep call was reached) flagged as hung
		out.Emit(boot)
		emitRounds(out, ci, c, ei, d, done)
		h := rec{K: "round", Case: ci, Emb: ei, Tau: int64(tau), Cfg: c.Cfg, Rnd: len(done) + 1,
			Ndo: len(pending.dos), RawOK: true, Exact: true, Hung: true}
		out.Emit(h)
		out.Close()
		os.Exit(exitHung)
	})
	if res.panicked && res.rec.touched {
		t.Fatalf("case %d: sync.Run panicked inside the loop: %s", ci, res.msg)
	}
	boot.Refused = res.panicked
	out.Emit(boot)
	if res.panicked {
		return 1, 0
	}
	n, nx := emitRounds(out, ci, c, ei, d, res.rec.rounds)
	return n + 1, nx
}

// exitHung is the driver's exit status after a behaviour that did not finish.
const exitHung = 3

// emitRounds writes one record per observed clk.Sleep call.
func emitRounds(out *vio.Out, ci int, c tcase, ei int, d int64, rounds []observed) (int, int) {
	e := embs[ei]
	tau := time.Millisecond
	n, nx := 0, 0
	for ri, ob := range rounds {
		r := rec{K: "round", Case: ci, Emb: ei, Tau: int64(tau), Cfg: c.Cfg, Rnd: ri + 1, Ndo: len(ob.dos),
			El: ob.el, Slept: ob.slept, Epoch: int64(ob.epoch)}
		r.RawOK = true
		for _, x := range ob.dos {
			if !rawBound(int64(x), c.Cfg.Pi4, d) || (c.Cfg.Npeer == 0 && !rawBound(int64(x), c.Cfg.Ri4, d)) {
				r.RawOK = false
			}
		}
		r.Exact = true
		if len(ob.dos) > 0 {
			var ok bool
			if r.Corr, ok = e.inv(int64(ob.dos[0])); !ok {
				r.Exact = false
			}
		}
		r.HasLog = len(ob.logs) == 1 && ob.logs[0].ok
		if r.HasLog {
			l := ob.logs[0]
			r.Rok, r.Pok = l.refOk, l.peerOk
			var o1, o2, o3, o4 bool
			r.Ro, o1 = e.invSeconds(l.refOff)
			r.Po, o2 = e.invSeconds(l.peerOff)
			r.Rc, o3 = e.invSeconds(l.refCorr)
			r.Pc, o4 = e.invSeconds(l.peerCorr)
			if !(o1 && o2 && o3 && o4) {
				r.Exact = false
			}
		}
		if e.ext {
			// values derived from MaxInt64 are not multiples of the scale and the
			// logger's float64 seconds cannot tell: only the raw inequality and
			// the Do count are judged under this embedding
			r.Exact = false
		}
		if !r.Exact {
			r.Corr, r.Ro, r.Po, r.Rc, r.Pc = 0, 0, 0, 0, 0
			nx++
		}
		if ri < len(c.Rounds) {
			m := c.Rounds[ri]
			r.HasExp = true
			r.ERo, r.EPo, r.ERc, r.EPc, r.ECorr = m.Ro, m.Po, m.Rc, m.Pc, m.Corr
			r.ESlp, r.EStp = m.Slp, m.Stp
		}
		out.Emit(r)
		n++
	}
	return n, nx
}
