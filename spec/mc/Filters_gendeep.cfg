SPECIFICATION Spec
CONSTANTS
  Which = "lucky"
  Caps = {1, 2, 3}
  Picks = {1, 2, 3}
  UnconfToo = TRUE
  Offs <- OffsGen2
  Rtds = {1, 2, 3, 4, 5}
  DistinctOnly = TRUE
  Clk0s = {0, 1}
  MaxEv = 5
  FilterAverage = 20
  Classes <- ClassesAll
  StepAt = {}
  MaxInDo = 0
  EmitMinInDo = 0
INVARIANTS Emit
