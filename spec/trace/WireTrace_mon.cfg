SPECIFICATION TSpec
INVARIANTS RLayRoundTrip RLayReencode RLaybReencode RLvmAgree RLvmSetGet RNtsKinds RNtsValues RNtsAuth RNtsAligned RSck RCrypt
