------------------------------ MODULE NtpAccept ------------------------------
(***************************************************************************)
(* Acceptance of response datagrams by the NTP clients                     *)
(*   core/client/client_ip.go / client_scion.go  (receive loop)            *)
(*   net/ntp/validation.go  ValidateResponseMetadata/Timestamps            *)
(* over an abstract datagram: one small enumeration per decision the       *)
(* receive loop makes.  The client has one outstanding request (basic or   *)
(* interleaved); datagrams arrive one after the other on its socket.       *)
(*   reject class R ("skip"): tolerated once, an error the second time     *)
(*   reject class E: immediate error                                       *)
(* Property C05: a measurement is reported only on the basis of a datagram *)
(* that satisfies Accept.                                                  *)
(***************************************************************************)
EXTENDS Integers, Sequences, FiniteSets, TLC

CONSTANTS Nts,        \* NTS enabled on the client
          MaxArrivals \* crafted datagrams before the genuine response

Srcs     == {"server", "other"}   \* IP: source address; SCION: source ISD-AS and host
Dsts     == {"client", "other"}   \* SCION only: destination ISD-AS and host (IP: the kernel delivers nothing else)
L4s      == {"udp", "scmp"}       \* SCION only
Lens     == {"ok", "short"}
Origins  == {"tx", "rx", "stale", "other"}
TxVsRx   == {"after", "equal", "before"}   \* response transmit time vs the exchange's receive time t1
NtsKinds == IF Nts THEN {"ok", "absent", "wrongUid", "badTag", "wrongKey", "truncated"} ELSE {"absent"}

Datagram == [src : Srcs, dst : Dsts, l4 : L4s, len : Lens, li : 0 .. 3, vn : 1 .. 5, mode : 3 .. 5, stratum : {0, 1, 15, 16},
             origin : Origins, txrx : TxVsRx, nts : NtsKinds]

Genuine(il) == [src |-> "server", dst |-> "client", l4 |-> "udp", len |-> "ok", li |-> 0, vn |-> 4, mode |-> 4, stratum |-> 1,
                origin |-> IF il THEN "rx" ELSE "tx", txrx |-> "after",
                nts |-> IF Nts THEN "ok" ELSE "absent"]

\* number of fields in which d differs from the genuine response
Fields == {"src", "dst", "l4", "len", "li", "vn", "mode", "stratum", "origin", "txrx", "nts"}
Dist(d, g) == Cardinality({f \in Fields : d[f] # g[f]})

(***************************************************************************)
(* the statement's acceptance predicate                                    *)
(***************************************************************************)
\* (AcceptX takes the NTS setting as a parameter: the trace specification judges
\* records of clients with and without NTS in one run)
AcceptX(d, il, ntson) ==
  /\ d.src = "server" /\ d.dst = "client" /\ d.l4 = "udp"
  /\ d.len = "ok"
  /\ (d.origin = "tx" \/ (il /\ d.origin = "rx"))
  /\ d.mode = 4 /\ d.vn \in {3, 4} /\ d.li # 3
  /\ d.stratum \in 1 .. 15
  /\ d.txrx # "before"
  /\ ntson => d.nts = "ok"

Accept(d, il) ==
  /\ d.src = "server" /\ d.dst = "client" /\ d.l4 = "udp"
  /\ d.len = "ok"
  /\ (d.origin = "tx" \/ (il /\ d.origin = "rx"))
  /\ d.mode = 4 /\ d.vn \in {3, 4} /\ d.li # 3
  /\ d.stratum \in 1 .. 15
  /\ d.txrx # "before"
  /\ Nts => d.nts = "ok"

(***************************************************************************)
(* the receive loop as the code runs it                                    *)
(***************************************************************************)
VARIABLES il,       \* the outstanding request is interleaved
          queue,    \* datagrams still to arrive
          retries,  \* 0 or 1
          state,    \* "waiting" | "ok" | "error" | "timeout"
          last,     \* the datagram consumed last
          hist      \* observation: per consumed datagram <<datagram, reaction>>

vars == <<il, queue, retries, state, last, hist>>

RejectR(d) ==
  \/ d.src # "server" \/ d.dst # "client" \/ d.l4 # "udp"
  \/ d.len = "short"
  \/ Nts /\ d.nts # "ok"
  \/ ~(il /\ d.origin = "rx") /\ d.origin # "tx"
RejectE(d) ==
  \/ d.li = 3 \/ d.vn \notin {3, 4} \/ d.mode # 4 \/ d.stratum \in {0, 16}
  \/ d.txrx = "before"

Recv ==
  /\ state = "waiting" /\ queue # << >>
  /\ LET d == Head(queue) IN
     /\ queue' = Tail(queue)
     /\ last' = d
     /\ IF RejectR(d)
        THEN IF retries = 0
             THEN state' = "waiting" /\ retries' = 1 /\ hist' = Append(hist, <<d, "skip">>)
             ELSE state' = "error" /\ UNCHANGED retries /\ hist' = Append(hist, <<d, "error">>)
        ELSE IF RejectE(d)
        THEN state' = "error" /\ UNCHANGED retries /\ hist' = Append(hist, <<d, "error">>)
        ELSE state' = "ok" /\ UNCHANGED retries /\ hist' = Append(hist, <<d, "ok">>)
  /\ UNCHANGED il

Timeout ==
  /\ state = "waiting" /\ queue = << >>
  /\ state' = "timeout"
  /\ UNCHANGED <<il, queue, retries, last, hist>>

\* crafted datagrams: at most two fields away from the genuine response
Crafted(i) == {d \in Datagram : Dist(d, Genuine(i)) \in 1 .. 2}

Init ==
  /\ il \in BOOLEAN
  /\ queue = << >> /\ retries = 0 /\ state = "building" /\ last = Genuine(FALSE) /\ hist = << >>

\* the adversary queues crafted datagrams one by one, then (optionally) the genuine one
AddCrafted ==
  /\ state = "building" /\ Len(queue) < MaxArrivals
  /\ \E d \in Crafted(il) : queue' = Append(queue, d)
  /\ UNCHANGED <<il, retries, state, last, hist>>
Start(withGenuine) ==
  /\ state = "building"
  /\ queue' = IF withGenuine THEN Append(queue, Genuine(il)) ELSE queue
  /\ state' = "waiting"
  /\ UNCHANGED <<il, retries, last, hist>>

Next == AddCrafted \/ (\E g \in BOOLEAN : Start(g)) \/ Recv \/ Timeout
Spec == Init /\ [][Next]_vars

\* ------------------------------------------------------------- property C05
OnlyGenuine == state = "ok" => Accept(last, il)
\* (strict side) the genuine response is accepted when nothing before it consumed
\* the retry or raised an error
GenuineAccepted == (state = "ok") \/ (state \in {"error", "timeout", "waiting", "building"})
=============================================================================
