SPECIFICATION GenSpec
CONSTANTS
  QPS = 512
  G = 8192
  DPS = 1000000000
  Variant = "code"
  AdjOffs <- None
  AdjDurs <- None
  AdjFreqs <- None
  StepOffs <- None
  Deltas <- None
  DoOffs <- DoOffsNs
  DoStats <- DoStatsSmall
  MaxOps = 1000
  MaxAdv = 1000
  DoAtomic = TRUE
  KeepHist = TRUE
  EpochReads = FALSE
  MaxLen = 1
INVARIANTS Emit
