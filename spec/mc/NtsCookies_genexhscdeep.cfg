SPECIFICATION HSpec
CONSTANTS
  PoolMax = 8
  CookieLen = 124
  MaxPacketLen = 1280
  PlaceholderTypedAsCookie = FALSE
  CapReply = TRUE
  Day = 2
  Ticks <- GTicksX
  Horizon = 6
  MaxEx = 3
  ProbeNs <- NoProbes
  ProbeUids <- GUidsX
  MaxOld = 2
  Transports <- TrSCION
  ScmpTypes <- ScmpAll
  HdrStates <- HdrStr16
  HdrPct = 0
  Exhaustive = TRUE
  Biases <- BiasOne
  TickPct = 0
  ProbePct = 0
  StalePct = 0
  ExInj <- InjX
  ScmpPct = 0
  ExScmp <- ScmpX
INVARIANTS Emit
PROPERTIES StepOfSpec
