SPECIFICATION FairSpec
CONSTANTS
  MaxClocks = 3
  Overlap = TRUE
  Fault = "norestore"
INVARIANTS ByDeadline ExactlyOncePrefix InTimeCounted NoStuckLeak SecondCallRefused CounterRestored
PROPERTIES NoLeak
