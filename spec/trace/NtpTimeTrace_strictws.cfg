SPECIFICATION TSpec
INVARIANTS SEncode SDecodeWholeSec SAggWholeSec
