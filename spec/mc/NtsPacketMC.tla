---------------------------- MODULE NtsPacketMC ----------------------------
(***************************************************************************)
(* Model-checking wrapper for NtsPacket (C10).                             *)
(*   NtsPacket_exh.cfg   every shape with <= 3 fields x every cell x every *)
(*                       replacement (all lengths 0..LenTop)               *)
(*   NtsPacket_deep.cfg  <= 5 fields                                       *)
(*   NtsPacket_phcookie.cfg  as _exh with placeholders typed as cookies     *)
(*                       (the code before the repair of C11/C14's finding) *)
(*   NtsPacket_unhardened.cfg  as _exh for the decoders before the          *)
(*                       hardening (loop / panic outcomes)                 *)
(*   NtsPacket_gen.cfg   case generator: the shapes the real encoder can   *)
(*                       emit (1..8 fields), representative replacements   *)
(*   NtsPacket_f_*.cfg   fault switches: Sound must FAIL (vacuity check);  *)
(*                       _f_storefirst: RejectedInert must FAIL            *)
(***************************************************************************)
EXTENDS NtsPacket, Json

RolesAll == {"req", "resp", "cookie"}

\* every length from 0 up to beyond the end of the largest packet of the configuration
LenTop == NtpCells + 2 + UidCells + MaxNf * (2 + CookieLen) + 6 + 3
LenChoicesExh(x) == 0 .. LenTop
\* representatives: loop, shorter than a header, a little shorter / longer, one cookie field further, far beyond
LenChoicesGen(x) == {0, 1, 2, 3, x - 1, x + 1, x + 2 + CookieLen, 400} \cap (0 .. 400)

\* Case emitter (spec -> code): one line per completed behaviour
Emit == Observed =>
  PrintT(<<"CASE", ToJson([role |-> role, nf |-> nf, kind |-> mut.kind, region |-> mut.region, fi |-> mut.fi,
                           sub |-> mut.sub, alt |-> mut.alt, out |-> outcome, opened |-> ck.opened, cok |-> ck.cok])>>)

\* used by the fault configurations: the property is expected to be violated
ASSUME DirectionsDistinct
=============================================================================
