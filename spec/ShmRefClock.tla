---------------------------- MODULE ShmRefClock ----------------------------
(***************************************************************************)
(* X03 (2) - the NTP SHM reference clock reader of driver/shm/refclk.go    *)
(* (ReferenceClock.MeasureClockOffset) and the segment protocol of         *)
(* driver/shm/data.go (struct shmTime, ntpd driver 28).                    *)
(*                                                                         *)
(* The segment is shared memory: a writer (gpsd, chrony's own tests, or    *)
(* scion-time's shm.Provider) and the reader are separate processes, every *)
(* field write and every field read is a step of its own, and TLC explores *)
(* every interleaving (sequentially consistent memory).                    *)
(*                                                                         *)
(* Writer "proto" (the protocol of driver 28, as gpsd does it), sample k:  *)
(*     valid := 0; count++; data fields one by one; count++; valid := 1    *)
(*   with the segment's mode fixed to Mode (0 or 1) beforehand.            *)
(* Writer "provider" (driver/shm/provider.go StoreClockSample): ONE struct *)
(*   assignment *p = shmTime{mode: 0, count: old+1, ..., valid: 1}, i.e.   *)
(*   the fields in address order, valid not cleared first.                 *)
(* Reader (refclk.go:43-89), one attempt:                                  *)
(*     t := *seg                        (field by field, order ReadOrder;  *)
(*                                       address order in the compiled     *)
(*                                       code, count before the data)      *)
(*     c2 := seg.count                                                     *)
(*     reject if (t.mode = 1 and t.count # c2) or t.mode \notin {0,1}      *)
(*               or t.valid = 0                                            *)
(*        -> retry (at most MaxRetries times, only with a deadline that    *)
(*           has not passed) or return errNoSample; nothing is written     *)
(*     seg.valid := 0                                                      *)
(*     ns fields if cn/1000 = cu and rn/1000 = ru, else usec * 1000        *)
(*     return receive time, clock time - receive time                      *)
(* With AtomicAttempt = TRUE an attempt is one step (what can be scheduled *)
(* deterministically around the real code: writer steps between calls and  *)
(* between the retries of one call); with FALSE every memory access is a   *)
(* step (decided by TLC on the specification; on the real code this level  *)
(* is exercised by a racing writer thread).                                *)
(***************************************************************************)
EXTENDS Integers, Sequences, FiniteSets

CONSTANTS WriterKind,     \* "proto" | "provider"
          Mode,           \* mode of the segment for the "proto" writer: 0 | 1
          NSamples,       \* samples the writer publishes
          MaxCalls,       \* reader calls
          MaxRetries,     \* retries per call (8 in refclk.go)
          DlKinds,        \* subset of {TRUE, FALSE}: calls with / without a usable deadline
          ReadOrder,      \* order in which the struct copy reads the fields
          AtomicAttempt,  \* TRUE: an attempt is one step
          RecordHist      \* TRUE: keep the script of events (generator)

DataFields == <<"cs", "cu", "rs", "ru", "cn", "rn">>
AddrOrder  == <<"mode", "count", "cs", "cu", "rs", "ru", "valid", "cn", "rn">>
CountLast  == <<"mode", "cs", "cu", "rs", "ru", "valid", "cn", "rn", "count">>

\* ---------------------------------------------------------------- samples
\* Sample k as numbers (seconds relative to a base second): every field value
\* identifies k, the ns fields are consistent with the usec fields, the clock
\* is 50 us + 5 ns ahead of the receive time.
ValOf(f, k) ==
  CASE f = "cs" -> k
    [] f = "rs" -> k
    [] f = "ru" -> 100000 * k + k
    [] f = "cu" -> 100000 * k + k + 50
    [] f = "rn" -> (100000 * k + k) * 1000 + 10 * k
    [] f = "cn" -> (100000 * k + k + 50) * 1000 + 10 * k + 5
Zero == [mode |-> 0, count |-> 0, cs |-> 0, cu |-> 0, rs |-> 0, ru |-> 0, valid |-> 0, cn |-> 0, rn |-> 0]
Full(k, m, c) == [mode |-> m, count |-> c, cs |-> ValOf("cs", k), cu |-> ValOf("cu", k), rs |-> ValOf("rs", k),
                  ru |-> ValOf("ru", k), valid |-> 1, cn |-> ValOf("cn", k), rn |-> ValOf("rn", k)]

\* ------------------------------------------------- the reader's computation
\* (refclk.go:47-80; usec fields are int32, ns fields uint32: a negative usec
\* field never equals ns/1000)
Accept(t, c2) == ~((t.mode = 1 /\ t.count # c2) \/ ~(t.mode = 0 \/ t.mode = 1) \/ t.valid = 0)
UseNs(t)   == t.cu >= 0 /\ t.ru >= 0 /\ t.cn \div 1000 = t.cu /\ t.rn \div 1000 = t.ru
RecvNs(t)  == IF UseNs(t) THEN t.rn ELSE 1000 * t.ru
ClockNs(t) == IF UseNs(t) THEN t.cn ELSE 1000 * t.cu
NsPerSec == 1000000000
\* time.Unix(sec, nsec) normalises nsec into [0, 1e9)
NormS(s, ns)  == s + (ns \div NsPerSec)
NormNs(s, ns) == ns % NsPerSec
Sample(t) == [s   |-> NormS(t.rs, RecvNs(t)),
              ns  |-> NormNs(t.rs, RecvNs(t)),
              off |-> (t.cs - t.rs) * NsPerSec + ClockNs(t) - RecvNs(t)]
NoSample == [s |-> 0, ns |-> 0, off |-> 0]

\* ------------------------------------------------------------------- state
VARIABLES seg,       \* the shared segment
          wpc, wk,   \* writer: next step of its sequence, sample being written
          wold,      \* writer "provider": count read when the assignment started
          rpc,       \* reader: "idle" | "copy" | "check" | "clear" | "retry"
          ri, t,     \* reader: next field of the copy, the copy
          dl, tries, ncalls,
          results,   \* accepted snapshots, in order
          rwrites,   \* ghost: <<field, value>> of every write of the reader
          hist       \* script of events (generator)

vars == <<seg, wpc, wk, wold, rpc, ri, t, dl, tries, ncalls, results, rwrites, hist>>

\* writer step sequences: <<field, kind>>; kind "inc" | "zero" | "one" | "data" | "mode0" | "oldinc"
ProtoSeq == <<<<"valid", "zero">>, <<"count", "inc">>, <<"cs", "data">>, <<"cu", "data">>, <<"rs", "data">>,
              <<"ru", "data">>, <<"cn", "data">>, <<"rn", "data">>, <<"count", "inc">>, <<"valid", "one">>>>
ProviderSeq == <<<<"mode", "mode0">>, <<"count", "oldinc">>, <<"cs", "data">>, <<"cu", "data">>, <<"rs", "data">>,
                 <<"ru", "data">>, <<"valid", "one">>, <<"cn", "data">>, <<"rn", "data">>>>
WSeq == IF WriterKind = "proto" THEN ProtoSeq ELSE ProviderSeq

Init ==
  /\ seg = [Zero EXCEPT !.mode = IF WriterKind = "proto" THEN Mode ELSE 0]
  /\ wpc = 1 /\ wk = 1 /\ wold = 0
  /\ rpc = "idle" /\ ri = 1 /\ t = Zero /\ dl = FALSE /\ tries = 0 /\ ncalls = 0
  /\ results = << >> /\ rwrites = << >> /\ hist = << >>

Rec(e) == IF RecordHist THEN Append(hist, e) ELSE hist

\* ------------------------------------------------------------------ writer
WVal(f, kind) ==
  CASE kind = "zero"   -> 0
    [] kind = "one"    -> 1
    [] kind = "inc"    -> seg.count + 1
    [] kind = "oldinc" -> wold + 1
    [] kind = "mode0"  -> 0
    [] kind = "data"   -> ValOf(f, wk)
WStep ==
  /\ wk <= NSamples
  /\ LET f == WSeq[wpc][1]
         v == WVal(f, WSeq[wpc][2])
     IN /\ seg' = [seg EXCEPT ![f] = v]
        /\ hist' = Rec([e |-> "w", f |-> f, v |-> v, dl |-> FALSE, ok |-> FALSE, s |-> 0, ns |-> 0, off |-> 0])
  \* the provider evaluates p.shm.time.count + 1 before it stores anything
  /\ wold' = IF wpc = 1 THEN seg.count ELSE wold
  /\ IF wpc = Len(WSeq) THEN wpc' = 1 /\ wk' = wk + 1 ELSE wpc' = wpc + 1 /\ wk' = wk
  /\ UNCHANGED <<rpc, ri, t, dl, tries, ncalls, results, rwrites>>
\* (wold is read in the first step; for "proto" it is unused)

\* ------------------------------------------------------------------ reader
Fail ==  \* a rejected attempt: retry or give up; the segment is not written
  IF dl /\ tries < MaxRetries
  THEN rpc' = "retry" /\ tries' = tries + 1
  ELSE rpc' = "idle" /\ tries' = tries

\* fine-grained
RCall(d) ==
  /\ ~AtomicAttempt /\ rpc = "idle" /\ ncalls < MaxCalls
  /\ rpc' = "copy" /\ ri' = 1 /\ dl' = d /\ tries' = 0 /\ ncalls' = ncalls + 1
  /\ UNCHANGED <<seg, wpc, wk, wold, t, results, rwrites, hist>>
RRetry ==
  /\ ~AtomicAttempt /\ rpc = "retry"
  /\ rpc' = "copy" /\ ri' = 1
  /\ UNCHANGED <<seg, wpc, wk, wold, t, dl, tries, ncalls, results, rwrites, hist>>
RCopy ==
  /\ rpc = "copy"
  /\ t' = [t EXCEPT ![ReadOrder[ri]] = seg[ReadOrder[ri]]]
  /\ IF ri = Len(ReadOrder) THEN rpc' = "check" /\ ri' = 1 ELSE rpc' = "copy" /\ ri' = ri + 1
  /\ UNCHANGED <<seg, wpc, wk, wold, dl, tries, ncalls, results, rwrites, hist>>
RCheck ==
  /\ rpc = "check"
  /\ IF Accept(t, seg.count) THEN rpc' = "clear" /\ tries' = tries ELSE Fail
  /\ UNCHANGED <<seg, wpc, wk, wold, ri, t, dl, ncalls, results, rwrites, hist>>
RClear ==
  /\ rpc = "clear"
  /\ seg' = [seg EXCEPT !.valid = 0]
  /\ rwrites' = Append(rwrites, <<"valid", 0>>)
  /\ results' = Append(results, t)
  /\ rpc' = "idle"
  /\ UNCHANGED <<wpc, wk, wold, ri, t, dl, tries, ncalls, hist>>

\* one attempt as one step
Attempt(kind, d) ==
  /\ t' = seg
  /\ IF Accept(seg, seg.count)
     THEN /\ seg' = [seg EXCEPT !.valid = 0]
          /\ rwrites' = Append(rwrites, <<"valid", 0>>)
          /\ results' = Append(results, seg)
          /\ rpc' = "idle" /\ tries' = IF kind = "call" THEN 0 ELSE tries
          /\ hist' = Rec([e |-> kind, f |-> "", v |-> 0, dl |-> d, ok |-> TRUE,
                          s |-> Sample(seg).s, ns |-> Sample(seg).ns, off |-> Sample(seg).off])
     ELSE /\ UNCHANGED <<seg, rwrites, results>>
          /\ IF d /\ (IF kind = "call" THEN 0 ELSE tries) < MaxRetries
             THEN rpc' = "retry" /\ tries' = (IF kind = "call" THEN 0 ELSE tries) + 1
             ELSE rpc' = "idle" /\ tries' = IF kind = "call" THEN 0 ELSE tries
          /\ hist' = Rec([e |-> kind, f |-> "", v |-> 0, dl |-> d, ok |-> FALSE, s |-> 0, ns |-> 0, off |-> 0])
ACall(d) ==
  /\ AtomicAttempt /\ rpc = "idle" /\ ncalls < MaxCalls
  /\ dl' = d /\ ncalls' = ncalls + 1
  /\ Attempt("call", d)
  /\ UNCHANGED <<wpc, wk, wold, ri>>
ARetry ==
  /\ AtomicAttempt /\ rpc = "retry"
  /\ Attempt("retry", dl)
  /\ UNCHANGED <<wpc, wk, wold, ri, dl, ncalls>>

Reader == (\E d \in DlKinds : RCall(d) \/ ACall(d)) \/ RRetry \/ RCopy \/ RCheck \/ RClear \/ ARetry
Next == WStep \/ Reader
Spec == Init /\ [][Next]_vars

(***************************************************************************)
(* PROPERTY SECTION (stated from the evident intent of refclk.go/data.go). *)
(*                                                                         *)
(* About one attempt (snapshot t of the segment, count c2 re-read after    *)
(* the copy):                                                              *)
(*  AcceptRule  the sample is used iff valid is set and (mode 0, or mode 1 *)
(*              with the same count before and after the read); any other  *)
(*              mode is never used                                         *)
(*  SampleValue the reported time is the receive time stamp of that very   *)
(*              snapshot and the reported offset its clock time stamp      *)
(*              minus its receive time stamp, with the ns fields when both *)
(*              are consistent with their usec fields, else usec * 1000    *)
(*  Consume     using a sample clears valid and writes nothing else; a     *)
(*              rejected attempt writes nothing                            *)
(*  Attempts    a call makes one attempt, or - with a deadline that has    *)
(*              not passed - retries a rejected one at most MaxRetries     *)
(*              times; it returns the first accepted sample, else an error *)
(* About behaviours with a "proto" writer:                                 *)
(*  NoTorn      (mode 1) every used sample is one completely written       *)
(*              sample: never a mixture of two                             *)
(*  NoDoubleUse no sample is used twice                                    *)
(***************************************************************************)
AcceptRuleP(ok, t_, c2) == ok <=> (t_.valid # 0 /\ (t_.mode = 0 \/ (t_.mode = 1 /\ t_.count = c2)))
SampleValueP(r, t_) == r = Sample(t_)
ConsumeP(ok, before, after) == after = IF ok THEN [before EXCEPT !.valid = 0] ELSE before
AttemptsP(n, d, ok) == /\ n >= 1 /\ n <= (IF d THEN MaxRetries + 1 ELSE 1)
                       /\ (~ok /\ d => n = MaxRetries + 1)

Untorn(t_) == \E k \in 1 .. 9 : \A i \in DOMAIN DataFields : t_[DataFields[i]] = ValOf(DataFields[i], k)
TagOf(t_)  == t_.rs

NoTorn == \A i \in DOMAIN results : Untorn(results[i])
NoDoubleUse == \A i, j \in DOMAIN results : i # j /\ Untorn(results[i]) /\ Untorn(results[j]) =>
                 TagOf(results[i]) # TagOf(results[j])
ReaderWritesOnlyValid == \A i \in DOMAIN rwrites : rwrites[i] = <<"valid", 0>>
\* every use wrote valid := 0 once, nothing else was written
ConsumeInv == Len(rwrites) = Len(results) /\ ReaderWritesOnlyValid
\* the reader never uses a snapshot that its own rule rejects
AcceptedOk == \A i \in DOMAIN results : results[i].valid # 0 /\ results[i].mode \in {0, 1}

X03Shm == NoTorn /\ NoDoubleUse /\ ConsumeInv /\ AcceptedOk
\* for writers / modes where the protocol gives no protection against tearing
X03ShmWeak == ConsumeInv /\ AcceptedOk
=============================================================================
