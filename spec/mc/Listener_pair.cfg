SPECIFICATION Spec
CONSTANTS
  Servers = {"A", "B"}
  B0s <- B0All
  Shapes <- ShapesPair
  Vias <- ViasPair
  MaxInject = 1
  Spoof = TRUE
  Confs <- ConfsSw
  Stores <- StoresNone
  Ancs <- AncsTs
  SrcPorts <- SrcPortsEph
  RestoreAtTop = TRUE
INVARIANTS ReplyIffValid ExactlyOne ToSender ReplyHeader NeverAnswersReply BoundedTraffic HistoryIndependence
