SPECIFICATION Spec
CONSTANTS
  Fault = "fwdOnSrvPort"
  KeyRegime = "mock"
  CheckSrcHost = TRUE
  MaxDatagrams = 1
  CIAs <- CIAs1
  CHosts <- CHosts1
  EpochLen = 1
  MaxClock = 0
  Grace = 0
  KeepPathType = FALSE
  Modes <- ModesAll
  ULs <- ULsAll
  L4s <- L4sAll
  DPorts <- DPortsAll
  DHosts <- DHostsAll
  Fams <- Fams4
  PathSet <- PathsSmall
  PathExts <- PathExtsSmall
  RespExts <- RespExtsAll
  Pls <- PlsAll
  ReqAuths <- ReqAuthsAll
  RespMuts <- RespMutsAll
INVARIANTS MacSound AuthReplyVerifies ReplyAddressing ForwardRule
